#!/usr/bin/env python3
"""tools/try_mutant.py <relative file> <old text> <new text> <prop> [<prop>...]
copies /repo to a scratch directory, applies the textual mutation, runs the baseline tests and the given checks
against the copy (PYCOMM3_REPO), prints a summary and removes the copy."""
import os, shutil, subprocess, sys, tempfile

def main():
    rel, old, new, props = sys.argv[1], sys.argv[2], sys.argv[3], sys.argv[4:]
    d = tempfile.mkdtemp(prefix="pycomm3-mut.", dir="/var/tmp")
    try:
        shutil.copytree("/repo/pycomm3", os.path.join(d, "pycomm3"))
        shutil.copytree("/repo/tests", os.path.join(d, "tests"))
        p = os.path.join(d, rel)
        s = open(p).read()
        if old not in s:
            print("MUTATION-NOT-APPLICABLE: pattern not found"); return 2
        open(p, "w").write(s.replace(old, new, 1))
        t = subprocess.run(["/venv/bin/python", "-m", "pytest", "-q", "-p", "no:cacheprovider", "--timeout=900",
                            "--continue-on-collection-errors"], cwd=d, capture_output=True, text=True,
                           env=dict(os.environ, PYTHONPATH=d))
        print("tests:", t.stdout.strip().splitlines()[-1] if t.stdout.strip() else t.stderr[-200:])
        rc_all = 0
        for pr in props:
            r = subprocess.run(["./vc", "check", pr], cwd="/verif", capture_output=True, text=True,
                               env=dict(os.environ, PYCOMM3_REPO=d))
            lines = [l for l in r.stdout.splitlines() if l.startswith(("VIOLATION", "OK", "UNDECIDED", "CHECKER", "ENGINE", "KNOWN"))]
            print(f"{pr}: exit={r.returncode}", "|", " || ".join(l[:230] for l in lines[:3]))
            if r.returncode not in (0, 1):
                print(r.stdout[-1500:], r.stderr[-1500:])
        return 0
    finally:
        shutil.rmtree(d, ignore_errors=True)

sys.exit(main())
