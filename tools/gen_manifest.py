#!/usr/bin/env python3
"""regenerates MANIFEST.json from the table below (run from /verif)"""
import json

NOTE_COMMON = ("trusted: the pyvc engine (self-built symbolic interpreter; hedged by a CPython cross-check and native replay), "
               "z3/cvc5, the library axioms listed in the evidence, the reference functions in spec/ (the oracle), and the "
               "assumed environment contracts listed in the evidence; integers are mathematical as in Python")

CLAIMED = {
    # id: (level category, text, technique, design_ref)
}
PENDING_REASON = "check not built yet (build in progress; see DESIGN.md section 6 for the order of work)"


def main():
    props = [json.loads(l) for l in open("properties.jsonl")]
    checks, na = [], []
    for p in props:
        pid = p["id"]
        if pid in CLAIMED:
            cat, text, tech, ref = CLAIMED[pid]
            checks.append({
                "property_id": pid,
                "quick_cmd": f"./vc check {pid} --tier quick",
                "thorough_cmd": f"./vc check {pid} --tier thorough",
                "evidence_file": f"evidence/{pid}.json",
                "replay_cmd_template": "./vc replay {path}",
                "engine": "pyvc",
                "level_claimed": {"category": cat, "text": text, "design_ref": ref},
                "level_note": NOTE_COMMON,
                "technique": tech,
            })
        else:
            na.append({"property_id": pid, "reason": NA.get(pid, PENDING_REASON)})
    m = {"version": 1, "setup_cmd": "./vc setup",
         "hooks": {"guard": "PYCOMM3_VERIF",
                   "enable": "no hook exists: the verifier parses /repo's source in place on every run; PYCOMM3_VERIF is unused",
                   "baseline_off_cmd": "cd /repo && /venv/bin/python -m pytest -ra -q -p no:cacheprovider --timeout=900 --continue-on-collection-errors",
                   "source_commits": [], "add_only": True},
         "engines": [{"name": "pyvc", "path": "pyvc/", "serves_properties": sorted(CLAIMED),
                      "kind_free_text": "self-built VC generator: path-wise symbolic execution of /repo's real source (re-parsed every run) "
                                        "against sidecar contracts (contracts/*.py) whose postconditions are reference functions in spec/*.py; "
                                        "obligations discharged by z3 (cvc5 on unknown); counter-models replayed natively on the real package"}],
         "checks": checks, "not_applicable": na,
         "notes": "see DESIGN.md (sections 1 and 9). Exit codes: 0 held, 1 violation, 2 undecided, 3 checker broken."}
    json.dump(m, open("MANIFEST.json", "w"), indent=1)
    print("claimed", sorted(CLAIMED), "pending", [x["property_id"] for x in na])


NA = {}

CODEC_TEXT = ("contract-based deductive verification: every exported codec class's encode/decode is proved equal to an independent "
              "reference codec (spec/cip_codec.py) for all values / all byte strings of every length, path by path, by a VC generator "
              "over the real source; Array / Struct are proved modularly against an abstract element type that carries only the codec "
              "contract (every element type at once; array length / member count 0-3) and on a finite set of concrete type instances "
              "(stated in the evidence); STRINGI, the PCCC string elements and arrays of bit strings are under contract too; "
              "parts the engine cannot reach are checked by a bounded native stand-in and never counted as proved")
CLAIMED.update({
    "C06": ("proof", CODEC_TEXT + "; round trip = lemma decode_ref(encode_ref(v) ++ rest) over the reference functions plus real==reference contracts", "contracts + VC generation (pyvc) + z3", "DESIGN.md 3 (C06-C08), 9"),
    "C07": ("proof", CODEC_TEXT, "contracts + VC generation (pyvc) + z3", "DESIGN.md 3 (C06-C08), 9"),
    "C08": ("proof", CODEC_TEXT + "; exception discipline = the exception class of every path equals the reference's (DataError / BufferEmptyError only)", "contracts + VC generation (pyvc) + z3", "DESIGN.md 3 (C06-C08), 9"),
})

CLAIMED.update({
    "C12": ("proof", "Socket.receive and Socket.send are verified against an assumed nondeterministic socket (any non-empty chunk, "
            "any partial send, close or OSError at any call): loop invariants (received == frame[:delivered]; sent == msg[:total_sent]) "
            "and variants are discharged for all frames up to the 16-bit length field and all schedules at once; "
            "CommError is the only exception and arises only after a peer fault",
            "loop invariants + variants over a nondeterministic environment contract (pyvc + z3)", "DESIGN.md 3 (C12), 9"),
})

CLAIMED.update({
    "C17": ("proof", "the counter generator is verified as a state machine (base case + inductive step for every (stop, start) and "
            "every position: next value = v+1 or start after stop, always within [start, stop]); the driver instantiates it with "
            "(65535, 1); a window lemma over the closed form shows any two draws fewer than 65535 apart differ (also across the wrap); "
            "every constructor of a connected packet (SendUnitData, read/write fragment follow-ups) is proved to take exactly one "
            "fresh draw and to put it first in the connected data. Adjacency of *sent* packets then follows because every packet "
            "object is sent at most once; that last step is argued in DESIGN.md 9 and not machine-checked",
            "state-machine induction + lemmas over contracts (pyvc + z3)", "DESIGN.md 3 (C17), 9"),
})

CLAIMED.update({
    "C19": ("proof", "every EnumMap table found in the tree under test is enumerated; item access, get and membership are proved for EVERY "
            "letter-casing of every declared member name at once (symbolic casing through the real MapMeta code), code -> name lookups, "
            "DataTypes.get_type, Services.from_reply and get_service_status over all 256 status bytes are finite and evaluated completely "
            "through the same interpreter (exhaustive)", "contracts + VC generation over symbolic casings; complete ground evaluation for the finite parts",
            "DESIGN.md 3 (C19), 9"),
})

CLAIMED.update({
    "C09": ("proof", "every path encoder (logical, port, ANSI symbol segments, EPATH with word count, class/instance/attribute request paths, "
            "tag request paths) is proved to produce bytes that an independent strict CIP path parser (spec/epath.py, written from CIP Vol 1 "
            "C-1.4) decodes back to exactly the intended segments: all 32-bit values and all byte-string forms at once; tag strings are "
            "constructed terms over symbolic names (any ASCII name up to 40 chars, odd and even lengths) and symbolic indices, for a finite set "
            "of path shapes (levels x indices per level x size classes; listed in the evidence; larger shapes in the thorough tier); "
            "out-of-domain segments must raise DataError", "contracts with parse-back postconditions (pyvc + z3)", "DESIGN.md 3 (C09), 9"),
})

CLAIMED.update({
    "C11": ("proof", "build_request of every encapsulation request class and CIPDriver.send are proved to emit exactly one frame that an independent "
            "strict parser (spec/encap.py, CIP Vol 2 ch. 2) accepts: header length field, command, session handle, zero status/options, "
            "two-item common packet with exact item lengths, connection id and leading sequence count -- for all payloads (0..65000 bytes), "
            "session handles, connection ids and contexts at once; message assembly is proved idempotent", "contracts with parse-back postconditions (pyvc + z3)",
            "DESIGN.md 3 (C11), 9"),
    "C13": ("proof", "every response class is constructed from an arbitrary byte string of any length (or None): truthiness is proved equal to "
            "the status-word predicate of spec/encap.py for every known reply service code, every general status and every length; derived classes "
            "(generic, read, fragmented read, write, read-modify-write, multi-service, list identity) are proved to raise nothing but library "
            "exceptions and never to report success without both status words; error texts are proved non-empty and to name the general "
            "status (all 255 values) and the extended status when present; multi-service demultiplexing pairs reply i with request i",
            "contracts over symbolic byte strings (pyvc + z3); finite status tables evaluated completely", "DESIGN.md 3 (C13), 9"),
})

CLAIMED.update({
    "C14": ("proof", "CIPDriver.generic_message is proved, against an assumed transport returning a Message Router reply, to emit for all "
            "class/instance/attribute values, all request data and connected / UCMM / Unconnected Send modes exactly: service, request path "
            "(the callee request_path is replaced by its proved contract), data, and the requested route (True/False/str/list/bytes); the "
            "Unconnected Send wrapper parses back (embedded size, pad byte, route) with the independent parser; reply data is returned "
            "unchanged or decoded (UINT/DINT/STRING); a refused request gives a falsy Tag with text; set/get_plc_time, get_module_info, "
            "get_plc_info, _list_identity are proved on top", "modular contracts + parse-back postconditions (pyvc + z3)", "DESIGN.md 3 (C14), 9"),
    "C16": ("proof", "ModuleIdentityObject / ListIdentityObject decoding and the ListIdentity reply parsing are proved equal to the field layout of "
            "CIP Vol 1 5-2 / Vol 2 2-4.2 (spec/identity.py) for all field values (ids 0..65535 through the vendor / product-type tables as "
            "uninterpreted lookups with the 'UNKNOWN' default, serial as 8 hex digits, Latin-1 names of length 0..255, any IPv4, any state); "
            "dict -> bytes -> dict identity for table names; get_module_info / get_plc_info (also: each poll returns what was answered this time) / _list_identity / CIPDriver.list_identity proved end to "
            "end over an assumed transport; discover / _broadcast_discover over an assumed UDP socket (every datagram reported, whatever its length)",
            "contracts against a reference layout (pyvc + z3)", "DESIGN.md 3 (C16), 9"),
})

CLAIMED.update({
    "C15": ("proof", "parse_connection_path / parse_cip_route are proved on constructed path strings -- symbolic host, symbolic TCP port numeral, "
            "every separator an independent symbolic character from {/ \\ ,}, port given by any alias or number 1..14, link given as a symbolic "
            "slot numeral or dotted quad -- to return the host, the port and a route whose encoding equals the reference route bytes computed "
            "from the components (hence all spellings of one route give identical bytes); shapes: 0-2 hops in the quick tier, 3 in the "
            "thorough tier, with and without the Logix/SLC shortcuts; strings outside the grammar (odd segment count, unknown port name, "
            "link out of range or malformed, invalid TCP port) are proved to raise RequestError / DataError and never yield route bytes",
            "contracts over constructed-term strings (pyvc + z3)", "DESIGN.md 3 (C15), 9"),
})

CLAIMED.update({
    "C18": ("proof", "three parts. (1) PROVED on constructed addresses: parse_tag's regular expressions are interpreted by the engine "
            "(pattern parsed by CPython's own re parser, backtracking matcher over symbolic numerals and letter casings, pyvc/rx.py), so "
            "for every shape of the grammar (word / bit / {count} forms of N B F L files, B<f>/<n>, S, I/O with and without file and word, "
            "timer / counter sub-elements) and ALL numerals in it the extracted file, element, sub-element, word, count and the range "
            "checks (file 1..255, element 0..255, bit 0..15, n 0..4095, over-long digit runs) equal the values stated from the components. "
            "(1b) BOUNDED: the same function against a hand-written oracle parser on an exhaustive enumeration of the grammar incl. junk "
            "and string / ASCII files (6e4 addresses quick, ~1e7 thorough). (2) PROVED for every value parse_tag can return: _read_tag / _write_tag emit "
            "the protected typed logical read / masked write with exactly the byte size, file number, file type code, element and sub-element "
            "of the address, the bit mask 1 << bit (0xFFFF for words) and the encoded data; replies decode to the word, the {count} list, "
            "the addressed bit, or PRE / ACC; non-zero STS gives a falsy Tag; a lemma over the target's masked-write rule shows a bit write "
            "changes only that bit", "contracts incl. an interpreted regex matcher over constructed strings (pyvc + z3) + exhaustive grammar enumeration as a second line",
            "DESIGN.md 3 (C18), 9"),
})

CLAIMED.update({
    "C04": ("proof", "linear-arithmetic obligations over SYMBOLIC sizes: connection size (any value 200..8000), element counts 1..65535, structure "
            "sizes, tag-name lengths (request path abstracted with proved length bounds): every packet a read / write builder returns has a "
            "connected data item <= the connection size and every non-fragmented or multi-service read solicits a reply <= that size "
            "(estimate >= actual), each request id lands in exactly one packet; write fragments tile the value (offsets from 0, contiguous, "
            "concatenation == value, each item <= size); each follow-up read fragment asks for the bytes received so far and the chunks "
            "reassemble (a fragment reply that is not a valid reply is never spliced into a value); the size asked for in the accepted (Large) Forward Open on the wire equals the size the driver plans with, on both fall-back paths. Bounds of the instances: 1-3 requests per call, <= 4 write fragments, "
            "<= 3 read fragments (all sizes within them)", "contracts over symbolic sizes (pyvc + z3, linear integer arithmetic)",
            "DESIGN.md 3 (C04), 9"),
})

E2E = ("the orchestration methods are verified over an assumed transport for a finite set of concrete request lists (names, indices, counts; "
       "listed in the evidence) with every reply status and all reply data symbolic, on one representative well-formed tag database "
       "(atomic, array, BOOL array, string, UDT with packed BOOL and hidden host member, program-scoped tag), on the multi-service path and on the "
       "Micro800 one-request-per-frame path; the pieces in between are "
       "proved for all values: ")
CLAIMED.update({
    "C01": ("proof", E2E + "request parsing incl. BOOL-array index -> DWORD arithmetic for every index / count and bit numbers against the integer width, tag request paths (C09), read and "
            "fragmented-read message layouts, reply demultiplexing (C13), parse_read_reply for atomic / array / BOOL-array / string / UDT, "
            "StructTag and FixedSizeString decoding for all images, fragment reassembly (C04), bit and BOOL-range extraction. What is NOT "
            "covered: arbitrary tag databases (only the representative one and the generic layout instances) and request lists beyond the listed ones",
            "modular contracts + end-to-end contracts over symbolic replies (pyvc + z3)", "DESIGN.md 3 (C01), 9"),
    "C02": ("proof", E2E + "encode_value (alignment of BOOL-array index and count, truncation, too-short lists, scalars), write / fragmented-write / multi-service message layouts, "
            "read-modify-write masks exactly as wide as the tag for every bit with a lemma that the target's (old | or) & and changes exactly the "
            "addressed bits, message assembled once, StructTag / FixedSizeString encoders (truncation to capacity), fragment tiling (C04). "
            "Not covered: arbitrary databases / request lists beyond the listed ones; the target's memory model is the assumed rule, not a device",
            "modular contracts + lemmas over the assumed target rule (pyvc + z3)", "DESIGN.md 3 (C02), 9"),
    "C03": ("proof", E2E + "Tag truthiness for all values; one result per request in request order incl. duplicates, invalid requests (unknown tag / "
            "member, malformed or out-of-range index, too-short or unencodable values, misaligned BOOL-array writes, bit numbers beyond the integer width, bit writes on structures) yield "
            "falsy Tags with text and leave the other results untouched; several bits of one word merge into one read-modify-write whose result "
            "fans out; builders put every request id in exactly one packet (C04); no exception escapes read / write on these lists",
            "end-to-end contracts over symbolic replies (pyvc + z3)", "DESIGN.md 3 (C03), 9"),
    "C05": ("proof", "symbol-list entry parsing is proved against the 1756-PM020 entry layout for all field values (with / without the external-access "
            "byte), truncated entries raise ResponseError; paging continues at last instance + 1 and the result is the concatenation of the pages "
            "(2 pages in the quick tier, 3 entries over 2 pages in the thorough tier); _create_tag is proved for all symbol-type / software-control "
            "bits on 0-3 dimensions; user-tag isolation is checked on a catalogue of symbol-name kinds against spec.user_visible; fragmented template "
            "reads reassemble for all chunk sizes with the right offsets and remaining sizes; tags_json is JSON-typed on the representative database. "
            "_parse_template_data / member-info parsing is proved on three representative templates (a UDT with a packed BOOL and its hidden host "
            "member, a LEN/DATA string type, and the predefined-type boundary with a symbolic template id) for all offsets, array lengths, bit numbers and sizes; NOT covered: arbitrary member-name lists, "
            "nested template fetches (_get_data_type recursion)",
            "contracts against the documented reply layouts (pyvc + z3)", "DESIGN.md 3 (C05), 9"),
    "C10": ("proof", "typestate contracts: open, a connected operation from 'session only' and from 'already fell back to the standard Forward Open' (for every connection id the target may grant), close from every state of the driver invariant, "
            "__enter__ / __exit__ are each proved -- under every target policy (session granted / refused, large Forward Open accepted / refused, "
            "standard refused) and with a transport fault at ANY send / receive index (symbolic fault position, every call forks) -- to raise "
            "only library exceptions, to send nothing on a connection before RegisterSession and a successful Forward Open (large first, then "
            "standard with size 500), and to leave the state the next contract starts from; close always ends in the initial state and, "
            "without fault, sends Forward Close (iff connected) then UnRegisterSession (iff registered). The composition over call histories is the "
            "standard invariant argument (DESIGN.md 9), not an enumeration", "typestate contracts with symbolic fault injection (pyvc + z3)",
            "DESIGN.md 3 (C10), 9"),
})

if __name__ == "__main__":
    main()
