#!/bin/sh
# runs every claimed check against /repo (quick tier by default), refreshing evidence/*.json
cd /verif || exit 3
tier="${1:-quick}"
for id in $(python3 -c "import json; print(' '.join(c['property_id'] for c in json.load(open('MANIFEST.json'))['checks']))"); do
  start=$(date +%s)
  out=$(./vc check "$id" --tier "$tier" 2>&1); rc=$?
  echo "$id rc=$rc $(( $(date +%s) - start ))s $(echo "$out" | tail -1 | cut -c1-200)"
done
