#!/usr/bin/env python3
"""tools/eval_refactor.py <name> <prop> [<prop> ...]
Takes a BEHAVIOUR-PRESERVING change delivered in /var/tmp/refactor-out/<name>/ (patch.diff, notes.md), applies it in a scratch
worktree, confirms the test-suite still passes, runs the given checks against the changed tree -- every one must exit 0 without a
VIOLATION line: anything else is a false alarm of the machinery -- stores the result under /verif/refactors/<name>/ and removes
the worktree."""
import json, os, shutil, subprocess, sys, tempfile


def sh(cmd, **kw):
    return subprocess.run(cmd, shell=True, capture_output=True, text=True, **kw)


def main():
    name, props = sys.argv[1], sys.argv[2:]
    src, dst = f"/var/tmp/refactor-out/{name}", f"/verif/refactors/{name}"
    os.makedirs(dst, exist_ok=True)
    for f in ("patch.diff", "notes.md"):
        shutil.copy(os.path.join(src, f), os.path.join(dst, f))
    wt = tempfile.mkdtemp(prefix="pycomm3-refactor.", dir="/var/tmp")
    os.rmdir(wt)
    ran = {}
    try:
        r = sh(f"git -C /repo worktree add --detach {wt} HEAD")
        assert r.returncode == 0, r.stderr
        r = sh(f"git -C {wt} apply {dst}/patch.diff")
        ran["apply"] = r.returncode
        if r.returncode != 0:
            ran["note"] = "patch does not apply to the current HEAD: " + r.stderr[:300]
            return 2
        t = sh("/venv/bin/python -m pytest -q -p no:cacheprovider --timeout=900 --continue-on-collection-errors", cwd=wt,
               env=dict(os.environ, PYTHONPATH=wt))
        ran["tests_with_change"] = t.stdout.strip().splitlines()[-1] if t.stdout.strip() else t.stderr[-200:]
        ran["checks"] = {}
        for p in props:
            c = sh(f"./vc check {p}", cwd="/verif", env=dict(os.environ, PYCOMM3_REPO=wt))
            lines = [l for l in c.stdout.splitlines() if l.startswith(("VIOLATION", "UNDECIDED", "CHECKER", "ENGINE", "OK", "KNOWN"))]
            ran["checks"][p] = {"exit": c.returncode, "lines": lines[:12]}
        ran["false_alarms"] = [p for p, c in ran["checks"].items() if c["exit"] == 1 or any(l.startswith("VIOLATION") for l in c["lines"])]
        ran["not_green"] = [p for p, c in ran["checks"].items() if c["exit"] != 0]
        return 0
    finally:
        json.dump(ran, open(f"{dst}/verification.json", "w"), indent=1)
        print(json.dumps(ran, indent=1)[-3000:])
        sh(f"git -C /repo worktree remove --force {wt}")
        sh("git -C /repo worktree prune")


if __name__ == "__main__":
    sys.exit(main())
