#!/usr/bin/env python3
"""tools/untouched.py -- functions of /repo/pycomm3 that no contract executes (neither under contract, nor replaced, nor
inlined), computed from evidence/*.json: the blind spots of the checks."""
import ast, glob, json, os


def main():
    touched = set()
    for f in glob.glob('/verif/evidence/*.json'):
        e = json.load(open(f))['coverage']
        for k in ('functions_under_contract', 'callees_replaced_by_contract', 'callees_inlined_real_body'):
            for x in e.get(k, []):
                touched.add(x if isinstance(x, str) else x.get('qualname'))
    allf = {}
    for root, _, files in os.walk('/repo/pycomm3'):
        for fn in files:
            if not fn.endswith('.py'):
                continue
            path = os.path.join(root, fn)
            mod = ('pycomm3' + path[len('/repo/pycomm3'):-3].replace('/', '.')).replace('.__init__', '')
            tree = ast.parse(open(path).read())

            def walk(node, prefix):
                for ch in ast.iter_child_nodes(node):
                    if isinstance(ch, (ast.FunctionDef, ast.AsyncFunctionDef)):
                        q = prefix + '.' + ch.name
                        allf[q] = ch.end_lineno - ch.lineno + 1
                        walk(ch, q + '.<locals>')
                    elif isinstance(ch, ast.ClassDef):
                        walk(ch, prefix + '.' + ch.name)
            walk(tree, mod)
    un = sorted(((n, q) for q, n in allf.items() if q not in touched), reverse=True)
    print(f"{len(allf)} functions, {len(allf) - len(un)} executed by some contract, {len(un)} never executed:")
    for n, q in un:
        print(f"  {n:4d} lines  {q}")


if __name__ == '__main__':
    main()
