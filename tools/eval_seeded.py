#!/usr/bin/env python3
"""tools/eval_seeded.py <name> <prop> [<prop> ...]
Takes a seeded change delivered in /var/tmp/seeded-out/<name>/ (patch.diff, demo.py, meta.json), confirms it in a scratch
worktree (tests still pass with it; demo passes on /repo and fails with the change), runs the given checks against the
changed tree, stores everything under /verif/seeded/<name>/ and removes the worktree."""
import json, os, shutil, subprocess, sys, tempfile

def sh(cmd, **kw):
    return subprocess.run(cmd, shell=True, capture_output=True, text=True, **kw)

def main():
    name, props = sys.argv[1], sys.argv[2:]
    src = f"/var/tmp/seeded-out/{name}"
    dst = f"/verif/seeded/{name}"
    os.makedirs(dst, exist_ok=True)
    for f in ("patch.diff", "demo.py", "meta.json"):
        shutil.copy(os.path.join(src, f), os.path.join(dst, f))
    wt = tempfile.mkdtemp(prefix="pycomm3-seed.", dir="/var/tmp")
    os.rmdir(wt)
    ran = {}
    try:
        r = sh(f"git -C /repo worktree add --detach {wt} HEAD")
        assert r.returncode == 0, r.stderr
        r = sh(f"git -C {wt} apply {dst}/patch.diff")
        ran["apply"] = r.returncode
        if r.returncode != 0:
            print("PATCH DOES NOT APPLY to current /repo HEAD:", r.stderr[:300])
            ran["note"] = "patch does not apply to the current HEAD (the function it touches was changed by a fix)"
            json.dump(ran, open(f"{dst}/verification.json", "w"), indent=1)
            return 2
        t = sh("/venv/bin/python -m pytest -q -p no:cacheprovider --timeout=900 --continue-on-collection-errors", cwd=wt,
               env=dict(os.environ, PYTHONPATH=wt))
        ran["tests_with_change"] = t.stdout.strip().splitlines()[-1] if t.stdout.strip() else t.stderr[-200:]
        a = sh(f"/venv/bin/python {dst}/demo.py", env=dict(os.environ, PYTHONPATH="/repo"))
        b = sh(f"/venv/bin/python {dst}/demo.py", env=dict(os.environ, PYTHONPATH=wt))
        ran["demo_on_repo_exit"], ran["demo_on_change_exit"] = a.returncode, b.returncode
        ran["demo_on_change_tail"] = (b.stdout + b.stderr).strip()[-400:]
        ran["checks"] = {}
        for p in props:
            c = sh(f"./vc check {p}", cwd="/verif", env=dict(os.environ, PYCOMM3_REPO=wt))
            lines = [l for l in c.stdout.splitlines() if l.startswith(("VIOLATION", "OK", "UNDECIDED", "CHECKER", "ENGINE", "KNOWN"))]
            ran["checks"][p] = {"exit": c.returncode, "lines": [l[:300] for l in lines[:4]]}
        ok = ("368 passed" in ran["tests_with_change"] or "366 passed" in ran["tests_with_change"]) and a.returncode == 0 and b.returncode != 0
        ran["confirmed"] = ok
        ran["detected_by"] = [p for p, v in ran["checks"].items() if v["exit"] == 1]
        json.dump(ran, open(f"{dst}/verification.json", "w"), indent=1)
        print(json.dumps(ran, indent=1)[:1800])
        return 0
    finally:
        sh(f"git -C /repo worktree remove --force {wt}")
        shutil.rmtree(wt, ignore_errors=True)

sys.exit(main())
