"""pyvc.batch -- worker process: reads tasks (one JSON per line) on stdin, writes results (one JSON per line) on stdout.
The parent (cli.run_tasks) kills and replaces a worker that exceeds the hard per-task limit (a solver call that
ignores its timeout cannot be interrupted from inside the process)."""
import json
import os
import sys


def main():
    sys.path.insert(0, os.environ.get("PYVC_VERIF", "/verif"))
    from pyvc import cli
    cli.load_contracts()
    out = sys.stdout
    sys.stdout = sys.stderr          # anything printed by accident must not corrupt the protocol
    for line in sys.stdin:
        line = line.strip()
        if not line:
            continue
        task = json.loads(line)
        res = cli._worker(tuple(task))
        out.write(json.dumps(res, default=str) + "\n")
        out.flush()


if __name__ == "__main__":
    main()
