"""pyvc.ops -- python primitive operations over mixed concrete / symbolic values."""
import operator
import z3

from .sym import (Sym, SInt, SBool, SAny, SFloat, Rope, BL, BS, BR, BN, BX, T, B, I, mk_int, mk_bool, simp,
                  const_of, ctx, OutOfReach, to_rope, mk_rope, rope_len, rope_len_term, rope_concat,
                  rope_getitem, rope_slice, rope_eq, rope_concrete, chunk_may_contain, rope_index_term,
                  int_and, int_or, int_xor, int_shl, int_shr, int_floordiv, int_mod, int_pow, is_intlike)
from .objs import (IObj, IClass, IByteArray, IStream, IIter, IGen, IFunc, IBound, INative, IStub, MISSING)


class ForeignOp(Exception):
    """operation on SAny: caller turns it into a fork raise-or-havoc"""


def is_sym(v):
    return isinstance(v, Sym)


def is_bytes(v):
    return isinstance(v, bytes) or (isinstance(v, Rope) and v.kind == "bytes")


def is_str(v):
    return isinstance(v, str) or (isinstance(v, Rope) and v.kind == "str")


def is_int(v):
    return (isinstance(v, int) and True) or isinstance(v, (SInt, SBool))


def is_seq(v):
    return is_bytes(v) or is_str(v)


def type_name(v):
    if isinstance(v, SInt):
        return "int"
    if isinstance(v, SBool):
        return "bool"
    if isinstance(v, Rope):
        return v.kind
    if isinstance(v, SFloat):
        return "float"
    if isinstance(v, IObj):
        return v.cls.name
    if isinstance(v, IByteArray):
        return "bytearray"
    return type(v).__name__


def any_op(what):
    """an operation on an opaque object (a value of none of the modelled types): it supports nothing."""
    if what.startswith("getattr"):
        raise AttributeError(f"'object' object has no attribute {what[8:]!r}")
    raise TypeError(f"unsupported operation {what} on 'object'")


# ----------------------------------------------------------------------------
def truth(v):
    """python bool(v) -> python bool (forks on symbolic)."""
    if v is None or isinstance(v, (bool, int, float, str, bytes, list, tuple, dict, set, frozenset)):
        return bool(v)
    if isinstance(v, SBool):
        return ctx().branch(v.t)
    if isinstance(v, SInt):
        return ctx().branch(v.t != 0)
    if isinstance(v, Rope):
        return ctx().branch(rope_len_term(v) != 0)
    if isinstance(v, IByteArray):
        return truth(v.value)
    if isinstance(v, SAny):
        return True
    if isinstance(v, SFloat):
        raise OutOfReach("truthiness of symbolic float")
    if isinstance(v, IObj):
        return NotImplemented  # interpreter handles __bool__/__len__
    if isinstance(v, IIter):
        return True
    return True


def truth_term(v):
    """bool(v) as python bool or z3 Bool, without branching (None if needs dunder)."""
    if v is None or isinstance(v, (bool, int, float, str, bytes, list, tuple, dict, set, frozenset)):
        return bool(v)
    if isinstance(v, SBool):
        return v.t
    if isinstance(v, SInt):
        return v.t != 0
    if isinstance(v, Rope):
        return rope_len_term(v) != 0
    return None


def py_len(v):
    if isinstance(v, (str, bytes, list, tuple, dict, set, frozenset, bytearray)):
        return len(v)
    if isinstance(v, Rope):
        return rope_len(v)
    if isinstance(v, IByteArray):
        return py_len(v.value)
    if isinstance(v, SAny):
        return any_op("len")
    if isinstance(v, IIter):
        raise TypeError("object of type 'generator' has no len()")
    raise TypeError(f"object of type '{type_name(v)}' has no len()")


def py_eq(a, b):
    """python a == b -> bool or SBool (no dunder dispatch; interpreter handles IObj.__eq__)."""
    if isinstance(a, SAny) or isinstance(b, SAny):
        return a is b
    if a is None or b is None:
        return a is b
    if isinstance(a, IByteArray):
        a = a.value
    if isinstance(b, IByteArray):
        b = b.value
    if isinstance(a, (SInt, SBool)) or isinstance(b, (SInt, SBool)):
        if isinstance(a, SBool) and isinstance(b, (bool, SBool)):
            return mk_bool(B(a) == B(b))
        if isinstance(b, SBool) and isinstance(a, bool):
            return mk_bool(B(a) == B(b))
        if is_intlike(a) and is_intlike(b):
            return mk_bool(T(a) == T(b))
        if isinstance(a, float) or isinstance(b, float):
            raise OutOfReach("int/float symbolic comparison")
        return False
    if isinstance(a, Rope) or isinstance(b, Rope):
        if is_seq(a) and is_seq(b):
            return mk_bool(rope_eq(a, b)) if not isinstance(rope_eq(a, b), bool) else rope_eq(a, b)
        return False
    if isinstance(a, SFloat) or isinstance(b, SFloat):
        if isinstance(a, SFloat) and isinstance(b, SFloat):
            return mk_bool(a.t == b.t)  # identity of the binary64 value (NaN == NaN, as the native comparison does)
        raise OutOfReach("float comparison")
    if isinstance(a, (list, tuple)) and isinstance(b, (list, tuple)):
        if type(a) is not type(b) or len(a) != len(b):
            return False
        conj = []
        for x, y in zip(a, b):
            e = py_eq(x, y)
            if e is False:
                return False
            if e is not True:
                conj.append(B(e))
        return mk_bool(z3.And(*conj)) if conj else True
    if isinstance(a, dict) and isinstance(b, dict):
        if set(a) != set(b):
            return False
        conj = []
        for k in a:
            e = py_eq(a[k], b[k])
            if e is False:
                return False
            if e is not True:
                conj.append(B(e))
        return mk_bool(z3.And(*conj)) if conj else True
    if isinstance(a, (IObj, IClass, IFunc, IBound, INative, IStub, IStream)) or \
            isinstance(b, (IObj, IClass, IFunc, IBound, INative, IStub, IStream)):
        return a is b
    try:
        return a == b
    except Exception:
        return False


_isnan_f = z3.Function("f_isnan", z3.IntSort(), z3.BoolSort())


def _isnan(t):
    return _isnan_f(t)


def py_not(v):
    if isinstance(v, bool):
        return not v
    if isinstance(v, SBool):
        return mk_bool(z3.Not(v.t))
    return None


def py_compare(op, a, b):
    """<, <=, >, >= on ints (and concrete natives)."""
    if isinstance(a, SAny) or isinstance(b, SAny):
        return any_op("compare")
    if is_sym(a) or is_sym(b):
        if is_intlike(a) and is_intlike(b):
            ta, tb = T(a), T(b)
            return mk_bool({"<": ta < tb, "<=": ta <= tb, ">": ta > tb, ">=": ta >= tb}[op])
        if (a is None or b is None or is_seq(a) != is_seq(b)):
            raise TypeError(f"'{op}' not supported between instances of '{type_name(a)}' and '{type_name(b)}'")
        raise OutOfReach(f"symbolic comparison {op} of {type_name(a)} and {type_name(b)}")
    f = {"<": operator.lt, "<=": operator.le, ">": operator.gt, ">=": operator.ge}[op]
    return f(a, b)


def _num_binop(op, a, b):
    if isinstance(a, (SFloat,)) or isinstance(b, (SFloat,)) or isinstance(a, float) or isinstance(b, float):
        raise OutOfReach("symbolic float arithmetic")
    if op == "+":
        from .sym import recombine_bytes
        return mk_int(recombine_bytes(T(a) + T(b)))
    if op == "-":
        return mk_int(T(a) - T(b))
    if op == "*":
        ca, cb = const_of(T(a)), const_of(T(b))
        if ca is None and cb is None:
            ctx().notes.append("nonlinear multiplication")
        return mk_int(T(a) * T(b))
    if op == "//":
        return int_floordiv(a, b)
    if op == "%":
        return int_mod(a, b)
    if op == "&":
        return int_and(a, b)
    if op == "|":
        return int_or(a, b)
    if op == "^":
        return int_xor(a, b)
    if op == "<<":
        return int_shl(a, b)
    if op == ">>":
        return int_shr(a, b)
    if op == "**":
        return int_pow(a, b)
    if op == "/":
        raise OutOfReach("true division of symbolic ints (float result)")
    raise OutOfReach(f"binop {op}")


_NATIVE = {"+": operator.add, "-": operator.sub, "*": operator.mul, "//": operator.floordiv, "%": operator.mod,
           "&": operator.and_, "|": operator.or_, "^": operator.xor, "<<": operator.lshift, ">>": operator.rshift,
           "**": operator.pow, "/": operator.truediv, "@": operator.matmul}


def py_binop(op, a, b):
    if isinstance(a, SAny) or isinstance(b, SAny):
        return any_op(f"binop {op}")
    if isinstance(a, IByteArray):
        a = a.value
    if isinstance(b, IByteArray):
        b = b.value
    if (isinstance(a, IStub) and a.kind == "opaque") or (isinstance(b, IStub) and b.kind == "opaque"):
        # datetime arithmetic: only the epoch + timedelta(microseconds) shape of get_plc_time; the value is framed out,
        # the OverflowError for results outside year 1..9999 is modelled
        for x in (a, b):
            us = getattr(x, "us", None)
            if us is not None:
                lo, hi = -62135596800000000, 253402300799999999
                if is_sym(us):
                    if not ctx().branch(z3.And(T(us) >= lo, T(us) <= hi)):
                        raise OverflowError("date value out of range")
                elif not (lo <= us <= hi):
                    raise OverflowError("date value out of range")
        return IStub("opaque-result", "opaque")
    if not is_sym(a) and not is_sym(b):
        if isinstance(a, (list, tuple)) and isinstance(b, (list, tuple)) and op == "+":
            return a + b
        if isinstance(a, (IObj, IClass)) or isinstance(b, (IObj, IClass)):
            raise TypeError(f"unsupported operand type(s) for {op}: '{type_name(a)}' and '{type_name(b)}'")
        return _NATIVE[op](a, b)
    # symbolic
    if is_intlike(a) and is_intlike(b):
        return _num_binop(op, a, b)
    if op == "+" and is_seq(a) and is_seq(b):
        return rope_concat(a, b)
    if op == "*" and ((is_seq(a) and is_intlike(b)) or (is_seq(b) and is_intlike(a))):
        s, n = (a, b) if is_seq(a) else (b, a)
        s = to_rope(s)
        cn = const_of(T(n))
        if cn is not None:
            out = []
            for _ in range(max(cn, 0)):
                out.extend(s.chunks)
            return mk_rope(s.kind, out)
        if len(s.chunks) == 1 and isinstance(s.chunks[0], BL) and len(s.chunks[0].items) == 1:
            from .sym import _decide
            if _decide(T(n) <= 0):
                return mk_rope(s.kind, [])
            return mk_rope(s.kind, [BR(s.chunks[0].items[0], simp(T(n)))])
        raise OutOfReach("repetition of a multi-element sequence a symbolic number of times")
    if op == "*" and isinstance(a, list) and is_intlike(b):
        cn = const_of(T(b))
        if cn is None:
            raise OutOfReach("list repetition by symbolic count")
        return a * cn
    if op == "%" and is_str(a):
        return _printf(a, b)
    if (is_seq(a) or is_seq(b) or a is None or b is None or isinstance(a, (list, tuple, dict)) or
            isinstance(b, (list, tuple, dict))):
        raise TypeError(f"unsupported operand type(s) for {op}: '{type_name(a)}' and '{type_name(b)}'")
    raise OutOfReach(f"binop {op} on {type_name(a)}, {type_name(b)}")


def py_unary(op, v):
    if isinstance(v, SAny):
        return any_op("unary")
    if op == "not":
        raise AssertionError
    if not is_sym(v):
        if isinstance(v, (IObj, IClass)) or v is None or isinstance(v, (str, bytes, list, dict, tuple)):
            raise TypeError(f"bad operand type for unary {op}: '{type_name(v)}'")
        return {"-": operator.neg, "+": operator.pos, "~": operator.invert}[op](v)
    if is_intlike(v):
        if op == "-":
            return mk_int(-T(v))
        if op == "+":
            return mk_int(T(v))
        if op == "~":
            return mk_int(-T(v) - 1)
    raise TypeError(f"bad operand type for unary {op}: '{type_name(v)}'")


# ----------------------------------------------------------------------------
def sym_key_lookup(d, key):
    """dict lookup with a possibly symbolic key; returns value or MISSING (forks per candidate)."""
    if isinstance(key, SAny):
        return MISSING
    if not is_sym(key):
        try:
            hash(key)
        except TypeError:
            raise TypeError(f"unhashable type: '{type_name(key)}'")
        return d.get(key, MISSING)
    c = ctx()
    for k in list(d):
        if isinstance(key, (SInt, SBool)):
            if isinstance(k, bool) or not isinstance(k, int):
                if not isinstance(k, bool):
                    continue
            if c.branch(T(key) == T(k)):
                return d[k]
        elif isinstance(key, Rope):
            if (key.kind == "bytes" and isinstance(k, bytes)) or (key.kind == "str" and isinstance(k, str)):
                e = rope_eq(key, k)
                if e is True or (e is not False and c.branch(e)):
                    return d[k]
    return MISSING


def py_contains(container, item):
    """item in container -> bool / SBool"""
    if isinstance(container, SAny):
        return any_op("in")
    if isinstance(container, IByteArray):
        container = container.value
    if isinstance(container, dict):
        if not is_sym(item):
            try:
                return item in container
            except TypeError as e:
                raise
        return sym_key_lookup({k: True for k in container}, item) is not MISSING
    if isinstance(container, (list, tuple, set, frozenset)):
        if not is_sym(item) and not any(is_sym(x) for x in container):
            if isinstance(item, (IObj, IClass)) or any(isinstance(x, (IObj, IClass)) for x in container):
                return any(x is item for x in container)
            return item in container
        disj = []
        for x in container:
            e = py_eq(x, item)
            if e is True:
                return True
            if e is not False:
                disj.append(B(e))
        return mk_bool(z3.Or(*disj)) if disj else False
    if is_seq(container):
        if is_str(container):
            if not is_str(item):
                raise TypeError("'in <string>' requires string as left operand")
            return rope_contains(container, item)
        if is_intlike(item):
            raise OutOfReach("int in bytes")
        return rope_contains(container, item)
    if isinstance(container, range):
        if not is_sym(item):
            return item in container
        if isinstance(item, (SInt, SBool)):
            t = T(item)
            if container.step > 0:
                return mk_bool(z3.And(t >= container.start, t < container.stop, (t - container.start) % container.step == 0))
            return mk_bool(z3.And(t <= container.start, t > container.stop, (container.start - t) % (-container.step) == 0))
        return False
    if isinstance(container, IIter):
        raise OutOfReach("in on iterator")
    if isinstance(container, (IObj, IClass, SFloat)) or container is None or isinstance(container, (int, float, SInt, SBool)):
        raise TypeError(f"argument of type '{type_name(container)}' is not iterable")
    raise OutOfReach(f"'in' on a {type(container).__name__}")


def rope_contains(hay, needle):
    if not is_sym(hay) and not is_sym(needle):
        return needle in hay
    nd = rope_concrete(needle) if is_sym(needle) else needle
    if nd is None:
        from .sym import chunk_same
        nr = to_rope(needle)
        if len(nr.chunks) == 1 and isinstance(nr.chunks[0], BX):
            # an opaque chunk (e.g. a formatted number) is contained if the very same chunk occurs in the haystack
            if any(chunk_same(nr.chunks[0], ch) for ch in to_rope(hay).chunks):
                return True
        raise OutOfReach("symbolic needle in containment test")
    if len(nd) == 0:
        return True
    h = to_rope(hay)
    cps = [ord(c) for c in nd] if isinstance(nd, str) else list(nd)
    # any char of the needle that is absent from every chunk => False
    for cp in set(cps):
        if all(chunk_may_contain(ch, cp) is False for ch in h.chunks):
            return False
    # literal chunks that contain the whole needle => True
    for ch in h.chunks:
        if isinstance(ch, BL):
            lits = [it if isinstance(it, int) else const_of(it) for it in ch.items]
            if None not in lits:
                for i in range(len(lits) - len(cps) + 1):
                    if lits[i:i + len(cps)] == cps:
                        return True
    if len(cps) == 1:
        # single char: disjunction over unknown chunks is not expressible without quantifiers
        unknown = [ch for ch in h.chunks if chunk_may_contain(ch, cps[0]) is None]
        if not unknown:
            return False
        lits = []
        for ch in unknown:
            if isinstance(ch, BL):
                lits.extend(T(it) == cps[0] for it in ch.items)
            else:
                raise OutOfReach(f"membership of {nd!r} in an unconstrained symbolic chunk {ch!r}")
        return mk_bool(z3.Or(*lits))
    raise OutOfReach(f"substring test {nd!r} against symbolic value")


def py_getitem(obj, key):
    if isinstance(obj, SAny):
        return any_op("getitem")
    if isinstance(obj, IByteArray):
        return py_getitem(obj.value, key)
    if isinstance(key, slice):
        lo, hi, step = key.start, key.stop, key.step
        if step not in (None, 1):
            if is_sym(obj) or is_sym(lo) or is_sym(hi):
                raise OutOfReach("extended slice on symbolic value")
            return obj[lo:hi:step]
        if isinstance(obj, (list, tuple)):
            if is_sym(lo) or is_sym(hi):
                clo = None if lo is None else const_of(T(lo))
                chi = None if hi is None else const_of(T(hi))
                if (lo is not None and clo is None) or (hi is not None and chi is None):
                    c = ctx()
                    if lo is not None and clo is None:
                        clo = c.concretize(T(lo), -len(obj) - 1, len(obj) + 1, "list slice bound") \
                            if c.is_true(z3.And(T(lo) >= -len(obj) - 1, T(lo) <= len(obj) + 1)) else None
                        if clo is None:
                            tl = simp(z3.If(T(lo) > len(obj), I(len(obj)), z3.If(T(lo) < -len(obj), I(-len(obj)), T(lo))))
                            clo = c.concretize(tl, -len(obj), len(obj), "list slice bound")
                    if hi is not None and chi is None:
                        th = simp(z3.If(T(hi) > len(obj), I(len(obj)), z3.If(T(hi) < -len(obj), I(-len(obj)), T(hi))))
                        chi = c.concretize(th, -len(obj), len(obj), "list slice bound")
                return obj[clo:chi]
            return obj[lo:hi]
        if is_seq(obj):
            if not is_sym(obj) and not is_sym(lo) and not is_sym(hi):
                return obj[lo:hi]
            if (lo is not None and not is_intlike(lo)) or (hi is not None and not is_intlike(hi)):
                raise TypeError("slice indices must be integers or None or have an __index__ method")
            return rope_slice(obj, lo, hi)
        if obj is None:
            raise TypeError("'NoneType' object is not subscriptable")
        raise TypeError(f"'{type_name(obj)}' object is not subscriptable")
    if isinstance(obj, dict):
        v = sym_key_lookup(obj, key)
        if v is MISSING:
            raise KeyError(key if not is_sym(key) else "symbolic-key")
        return v
    if isinstance(obj, (list, tuple)):
        if isinstance(key, (SInt, SBool)):
            c = ctx()
            n = len(obj)
            if not c.branch(z3.And(T(key) >= -n, T(key) < n)):
                raise IndexError("list index out of range")
            k = c.concretize(T(key), -n, n - 1, "list index")
            return obj[k]
        if not isinstance(key, int):
            raise TypeError(f"list indices must be integers or slices, not {type_name(key)}")
        return obj[key]
    if is_seq(obj):
        if not is_sym(obj) and not is_sym(key):
            return obj[key]
        if not is_intlike(key):
            raise TypeError(f"indices must be integers, not {type_name(key)}")
        return rope_getitem(obj, key)
    if obj is None:
        raise TypeError("'NoneType' object is not subscriptable")
    if isinstance(obj, (int, SInt, SBool, float)):
        raise TypeError(f"'{type_name(obj)}' object is not subscriptable")
    return NotImplemented


def _printf(fmt, args):
    """'...%d...%s...' % args with symbolic arguments: only the plain conversions %d %i %s %r (no flags / width) and %%"""
    if is_sym(fmt):
        raise OutOfReach("printf-style formatting with a symbolic template")
    if not isinstance(args, tuple):
        args = (args,)
    out, i, k = "", 0, 0

    def cat(x, y):
        if not is_sym(x) and not is_sym(y):
            return x + y
        return rope_concat(to_rope(x) if not isinstance(x, Rope) else x, to_rope(y) if not isinstance(y, Rope) else y)
    while i < len(fmt):
        ch = fmt[i]
        if ch != "%":
            out = cat(out, ch)
            i += 1
            continue
        if i + 1 >= len(fmt):
            raise ValueError("incomplete format")
        conv = fmt[i + 1]
        i += 2
        if conv == "%":
            out = cat(out, "%")
            continue
        if conv not in "disr":
            raise OutOfReach(f"printf-style conversion %{conv} on symbolic values")
        if k >= len(args):
            raise TypeError("not enough arguments for format string")
        v = args[k]
        k += 1
        if isinstance(v, (SInt,)) :
            t = T(v)
            if ctx().branch(t >= 0):
                piece = mk_rope("str", [BN(t)])
            else:
                piece = rope_concat(to_rope("-"), mk_rope("str", [BN(simp(-t))]))
        elif isinstance(v, SBool):
            if conv in "di":
                piece = "1" if ctx().branch(v.t) else "0"
            else:
                piece = "True" if ctx().branch(v.t) else "False"
        elif isinstance(v, Rope):
            if conv in "di":
                raise TypeError("%d format: a real number is required, not " + type_name(v))
            if conv == "r" or v.kind != "str":
                raise OutOfReach("repr of a symbolic string in printf-style formatting")
            piece = v
        elif is_sym(v) or not isinstance(v, (int, str, float, bytes, type(None))):
            raise OutOfReach("printf-style formatting of " + type_name(v))
        else:
            piece = ("%" + conv) % (v,)
        out = cat(out, piece)
    if k != len(args):
        raise TypeError("not all arguments converted during string formatting")
    return out


def py_iter_list(v):
    """materialise an iterable into a python list of items (concrete length required)."""
    if isinstance(v, (list, tuple)):
        return list(v)
    if isinstance(v, (set, frozenset)):
        return list(v)
    if isinstance(v, dict):
        return list(v.keys())
    if isinstance(v, (str,)):
        return list(v)
    if isinstance(v, bytes):
        return list(v)
    if isinstance(v, IByteArray):
        return py_iter_list(v.value)
    if isinstance(v, range):
        return list(v)
    if isinstance(v, IIter):
        return v.rest()
    if isinstance(v, Rope):
        lt = rope_len_term(v)
        n = const_of(lt)
        if n is None:
            # a short sequence of symbolic length (e.g. value[:2]): one path per length
            from .sym import ctx as _ctx
            c = _ctx()
            if not c.is_true(lt <= 8):
                raise OutOfReach("iteration over a sequence of symbolic length")
            n = c.concretize(lt, 0, 8, "sequence length")
        if v.kind == "bytes":
            return [mk_int(rope_index_term(v, i)) for i in range(n)]
        return [mk_rope("str", [BL([rope_index_term(v, i)])]) for i in range(n)]
    if isinstance(v, type({}.items())) or isinstance(v, type({}.keys())) or isinstance(v, type({}.values())):
        return list(v)
    if isinstance(v, (enumerate, zip, map, filter, reversed)):
        return list(v)
    if isinstance(v, SAny):
        r = any_op("iter")
        raise OutOfReach("iteration over value of unknown type")
    if v is None or isinstance(v, (int, float, SInt, SBool, SFloat)):
        raise TypeError(f"'{type_name(v)}' object is not iterable")
    return NotImplemented
