"""pyvc.cli -- ./vc check <PROPERTY> --tier quick|thorough ; ./vc replay <file> ; ./vc setup ; ./vc list"""
import argparse
import importlib
import json
import multiprocessing as mp
import os
import pkgutil
import re
import subprocess
import sys
import time
import traceback

VERIF = os.path.dirname(os.path.dirname(os.path.abspath(__file__)))
REPO = os.environ.get("PYCOMM3_REPO", "/repo")
NATIVE_PY = os.environ.get("PYVC_NATIVE_PY", "/venv/bin/python")

ASSUMPTIONS = [
    "engine: pyvc (self-built path-wise symbolic interpreter for the Python subset of DESIGN.md 1.3) is trusted; "
    "hedged by the CPython cross-check and native replay of every counter-model, not proved",
    "python: ints are unbounded; no MemoryError/RecursionError; left-to-right evaluation; dicts keep insertion order; "
    "attribute lookup follows the C3 MRO computed from the AST; no monkeypatching",
    "generator expressions are evaluated eagerly where their consumer drains them in the same statement",
    "extraction drops: docstrings, annotations, logging calls with their arguments, print, __repr__/__str__ wording, "
    "the wording of exception messages",
    "library axioms (struct.pack/unpack, BytesIO.read/tell, str/bytes methods, itertools.tee/zip_longest, "
    "ipaddress.IPv4Address, os.urandom) are trusted and sampled against CPython only through the cross-check",
    "regular expressions: pattern parsed by CPython's re._parser, matched by pyvc/rx.py (greedy backtracking over literal characters, "
    "symbolic casings and decimal numerals whose digit count is decided on the path); differential-tested against re, not proved",
    "memoryview(bytes) behaves as the bytes; str.format / printf-style %d %s with symbolic arguments build the same text as f-strings",
    "loop cut points: every local the loop assigns is havocked (by type) unless the loop contract gives it in solved form; the package's "
    "module and class namespaces are restored (shallowly) before every path, so state left by another path or instance does not leak",
    "an unmodelled builtin, library attribute, imported library name or decorator makes the paths that use it out of reach (bounded "
    "native run instead), it never raises inside the engine",
]


def load_contracts():
    sys.path.insert(0, VERIF)
    if REPO not in sys.path:
        sys.path.insert(0, REPO)   # contract modules may enumerate classes / tables of the tree under test
    from . import api
    import contracts
    for m in sorted(pkgutil.iter_modules(contracts.__path__), key=lambda m: m.name):
        importlib.import_module("contracts." + m.name)
    return api


def known_findings():
    """ids listed as open findings in /verif/known_findings.txt -> description"""
    out = {}
    path = os.path.join(VERIF, "known_findings.txt")
    if os.path.exists(path):
        for line in open(path):
            line = line.strip()
            if line.startswith("finding:"):
                m = re.search(r"id=(\S+)", line)
                p = re.search(r"property=(\S+)", line)
                if m:
                    out[m.group(1)] = {"line": line, "property": p.group(1) if p else None}
    return out


_V = None


class _Budget(Exception):
    pass


def _worker(task):
    global _V
    cid, binding, tier, timeout_ms = task
    from . import api
    from .verify import Verifier
    import signal
    from .sym import set_ctx

    def _alarm(signum, frame):
        raise _Budget()
    budget = int(os.environ.get("PYVC_INSTANCE_BUDGET", "400" if tier == "quick" else "1500"))
    t0 = time.time()   # the parent process enforces the budget by killing this worker (see run_tasks)
    try:
        if _V is None:
            _V = Verifier(repo=REPO, verif=VERIF, timeout_ms=timeout_ms, tier=tier)
        c = api.BY_ID[cid]
        r = _V.verify_instance(c, binding)
        d = r.as_dict()
        d["covers"] = r.covers
        d["aborted"] = r.aborted_paths
        if os.environ.get("PYVC_VERBOSE"):
            sys.stderr.write(f"[{time.time() - t0:7.1f}s] {cid} {list(binding.values())} paths={r.paths} oor={r.out_of_reach}\n")
        return d
    except _Budget:
        set_ctx(None)
        _V = None
        if os.environ.get("PYVC_VERBOSE"):
            sys.stderr.write(f"[{time.time() - t0:7.1f}s] {cid} {list(binding.values())} TIME BUDGET\n")
        return {"contract": cid, "binding": binding, "paths": 0, "out_of_reach": f"time budget of {budget}s per instance exhausted",
                "obligations": [], "inlined": [], "substituted": [], "secs": time.time() - t0, "notes": [], "solver_calls": 0,
                "covers": 1, "aborted": 0}
    except Exception as e:
        if time.time() - t0 >= budget - 2:
            # the budget alarm fired inside a solver call (the exception surfaces as a ctypes error): same outcome
            set_ctx(None)
            _V = None
            return {"contract": cid, "binding": binding, "paths": 0, "out_of_reach": f"time budget of {budget}s per instance exhausted",
                    "obligations": [], "inlined": [], "substituted": [], "secs": time.time() - t0, "notes": [], "solver_calls": 0,
                    "covers": 1, "aborted": 0}
        return {"contract": cid, "binding": binding, "crash": traceback.format_exc()}
    finally:
        pass


def run_tasks(tasks, nproc, tier, stop_when=None):
    """run verification tasks in worker subprocesses (pyvc.batch) with a HARD per-task limit: a worker that does not
    answer in time is killed and replaced, its task is reported out of reach (never a verdict).  When `stop_when`
    says a finished instance carries a natively confirmed violation, the instances not yet started are skipped."""
    import queue
    import select
    import threading
    hard = int(os.environ.get("PYVC_INSTANCE_BUDGET", "400" if tier == "quick" else "1500"))
    stop = {"flag": False}
    q = queue.Queue()
    for i, t in enumerate(tasks):
        q.put((i, t))
    results = [None] * len(tasks)
    env = dict(os.environ, PYVC_VERIF=VERIF, PYCOMM3_REPO=REPO, PYTHONDONTWRITEBYTECODE="1")

    def spawn():
        return subprocess.Popen([sys.executable, "-m", "pyvc.batch"], stdin=subprocess.PIPE, stdout=subprocess.PIPE,
                                stderr=(None if os.environ.get("PYVC_VERBOSE") else subprocess.DEVNULL), cwd=VERIF, env=env,
                                text=True, bufsize=1)

    def run():
        proc = spawn()
        while True:
            try:
                i, t = q.get_nowait()
            except queue.Empty:
                break
            if stop["flag"]:
                results[i] = {"contract": t[0], "binding": t[1], "skipped": True}
                continue
            line = ""
            try:
                proc.stdin.write(json.dumps(list(t)) + "\n")
                proc.stdin.flush()
                ready, _, _ = select.select([proc.stdout], [], [], hard)
                line = proc.stdout.readline() if ready else ""
            except Exception:
                line = ""
            if line:
                try:
                    results[i] = json.loads(line)
                    if stop_when is not None and not stop["flag"] and stop_when(results[i]):
                        stop["flag"] = True
                    continue
                except Exception:
                    pass
            try:
                proc.kill()
                proc.wait(timeout=10)
            except Exception:
                pass
            results[i] = {"contract": t[0], "binding": t[1], "paths": 0,
                          "out_of_reach": f"no answer within the hard limit of {hard}s per instance (worker killed)",
                          "obligations": [], "inlined": [], "substituted": [], "secs": hard, "notes": [], "solver_calls": 0,
                          "covers": 1, "aborted": 0}
            proc = spawn()
        try:
            proc.stdin.close()
            proc.wait(timeout=10)
        except Exception:
            proc.kill()

    threads = [threading.Thread(target=run) for _ in range(nproc)]
    for th in threads:
        th.start()
    for th in threads:
        th.join()
    return results


def run_native(args, timeout=600):
    env = dict(os.environ, PYTHONPATH=VERIF, PYCOMM3_REPO=REPO, PYVC_VERIF=VERIF, PYTHONDONTWRITEBYTECODE="1")
    p = subprocess.run([NATIVE_PY, "-m", "pyvc.native"] + args, capture_output=True, text=True, env=env, cwd=VERIF,
                       timeout=timeout)
    return p.returncode, p.stdout, p.stderr


def _sample_task(t):
    cid, binding, seed, count = t
    try:
        rc, out, err = run_native(["sample", cid, json.dumps(binding), str(seed), str(count)])
        if rc != 0:
            return {"cid": cid, "binding": binding, "error": err[-2000:]}
        d = json.loads(out)
        d["cid"], d["binding"] = cid, binding
        return d
    except Exception as e:
        return {"cid": cid, "binding": binding, "error": repr(e)}


def _enum_task(t):
    cid, tier, k, n = t
    try:
        rc, out, err = run_native(["enum", cid, tier, str(k), str(n)], timeout=3000)
        if rc != 0:
            return {"error": err[-1000:]}
        return json.loads(out)
    except Exception as e:
        return {"error": repr(e)}


def safe_name(s):
    return re.sub(r"[^A-Za-z0-9_.-]+", "_", s)[:150]


def check(prop, tier, seed):
    t0 = time.time()
    api = load_contracts()
    kf = known_findings()
    items = [c for c in api.REGISTRY + api.LEMMAS if prop in c.props]
    proved = [c for c in items if not getattr(c, "assumed", False)
              and (tier == "thorough" or getattr(c, "tier", "quick") == "quick")]
    tasks = []
    timeout_ms = 20000 if tier == "quick" else 80000
    enum_contracts = [c for c in proved if getattr(c, "enum", None)]
    proved = [c for c in proved if not getattr(c, "enum", None)]
    for c in proved:
        for b in c.instances():
            tasks.append((c.id, b, tier, timeout_ms))
    if not tasks and not enum_contracts:
        print(f"CHECKER-BROKEN property={prop}: no contracts registered")
        return 3
    nproc = min(int(os.environ.get("PYVC_JOBS", "16")), max(1, len(tasks)))
    ctxm = mp.get_context("fork")

    def confirmed_violation(r):
        """native replay of the first counter-model of a finished instance (used to stop early on a definite violation)"""
        try:
            c = api.BY_ID[r["contract"]]
            for o in r.get("obligations", []):
                if o["status"] == "failed" and o.get("inputs") and not (o.get("known") and o["known"] in kf) and getattr(c, "replay", True):
                    os.makedirs(os.path.join("replays", prop), exist_ok=True)
                    path = os.path.join("replays", prop, safe_name("early-" + r["contract"]) + ".json")
                    json.dump({"property": prop, "contract": r["contract"], "binding": r["binding"], "obligation": o["name"],
                               "inputs": o["inputs"]}, open(path, "w"), indent=1)
                    rc, out, err = run_native(["replay", path])
                    os.unlink(path)
                    return rc == 1
        except Exception:
            return False
        return False

    results = run_tasks(tasks, nproc, tier, stop_when=confirmed_violation) if tasks else []
    n_skipped = len([r for r in results if r.get("skipped")])
    results = [r for r in results if not r.get("skipped")]
    # a solver `unknown` or a budget kill under full load is not a verdict: such instances are run once more, one at a time
    # (no contention) with three times the solver timeout, and only that second answer counts
    def _shaky(r):
        if "crash" in r:
            return False
        if any(o["status"] == "unknown" for o in r.get("obligations", [])):
            return True
        return bool(r.get("out_of_reach")) and ("hard limit" in r["out_of_reach"] or "budget" in r["out_of_reach"])
    retry = [(r["contract"], r["binding"], tier, timeout_ms * 3) for r in results if _shaky(r)]
    if retry and len(retry) <= 12:
        again = run_tasks(retry, 1, tier)
        by_key = {(r["contract"], json.dumps(r["binding"], sort_keys=True)): r for r in again if not r.get("skipped")}
        results = [by_key.get((r["contract"], json.dumps(r["binding"], sort_keys=True)), r) if _shaky(r) else r for r in results]
    crashes = [r for r in results if "crash" in r]
    if crashes:
        for r in crashes[:3]:
            print(f"ENGINE-CRASH contract={r['contract']} binding={r['binding']}\n{r['crash']}")
        write_evidence(prop, tier, seed, t0, results, [], [], [], api, note="engine crash")
        return 3

    # ---- triage of failed / unknown obligations
    violations, findings_seen, undecided, bounded = [], {}, [], []
    # ---- exhaustive native enumerations (bounded stand-ins for functions the engine cannot reach, e.g. regex code)
    for c in enum_contracts:
        nsh = 16
        with ctxm.Pool(nsh) as pool:
            outs = pool.map(_enum_task, [(c.id, tier, k, nsh) for k in range(nsh)], chunksize=1)
        total = 0
        for o in outs:
            if "error" in o:
                undecided.append({"instance": c.id, "reason": "enumeration failed to run: " + o["error"][-300:]})
                continue
            total += o["evaluations"]
            for f in o["failures"]:
                if f.get("known") and f["known"] in kf:
                    findings_seen.setdefault(f["known"], {"replay": None, "why": f["why"], "inputs": f["inputs"]})
                elif not any(v["instance"] == c.id for v in violations):
                    os.makedirs(os.path.join("replays", prop), exist_ok=True)
                    path = os.path.join("replays", prop, safe_name(c.id + "-enumerated") + ".json")
                    json.dump({"property": prop, "contract": c.id, "binding": {}, "obligation": "exhaustive-enumeration",
                               "inputs": f["inputs"], "native": {"status": "fail", "why": f["why"]}}, open(path, "w"), indent=1)
                    violations.append({"instance": c.id, "obligation": "exhaustive-enumeration", "replay": path,
                                       "why": f["why"], "confirmed": True})
        bounded.append({"function": c.func, "instance": c.id, "reason": c.bounded or "outside the engine's reach",
                        "bound": "exhaustive enumeration of the input grammar declared in the contract (tier %s)" % tier,
                        "evaluations": total, "exhaustive_over_declared_grammar": True})
    replay_dir = os.path.join("replays", prop)
    n_obl = n_dis = 0
    sample_jobs = []
    for r in results:
        c = api.BY_ID[r["contract"]]
        for o in r["obligations"]:
            n_obl += 1
            if o["status"] == "discharged":
                n_dis += 1
        if r["out_of_reach"]:
            sample_jobs.append((r["contract"], r["binding"], seed, 400 if tier == "quick" else 5000))
    # native bounded stand-in for out-of-reach instances / unknown obligations, plus cross-check sampling
    xcheck_n = 40 if tier == "quick" else 400
    have = {(j[0], json.dumps(j[1], sort_keys=True)) for j in sample_jobs}
    for r in results:
        key = (r["contract"], json.dumps(r["binding"], sort_keys=True))
        c = api.BY_ID[r["contract"]]
        if key in have or not hasattr(c, "call"):
            continue
        if any(o["status"] == "unknown" for o in r["obligations"]):
            sample_jobs.append((r["contract"], r["binding"], seed, 400 if tier == "quick" else 5000))
        else:
            sample_jobs.append((r["contract"], r["binding"], seed, xcheck_n))
    with ctxm.Pool(min(16, max(1, len(sample_jobs)))) as pool:
        samples = pool.map(_sample_task, sample_jobs, chunksize=1)
    sample_by_key = {(s["cid"], json.dumps(s["binding"], sort_keys=True)): s for s in samples}

    failing_reported = set()
    for r in results:
        c = api.BY_ID[r["contract"]]
        key = (r["contract"], json.dumps(r["binding"], sort_keys=True))
        smp = sample_by_key.get(key, {})
        inst = f"{r['contract']}[{','.join(v.split('.')[-1] for v in r['binding'].values())}]"
        fails = [o for o in r["obligations"] if o["status"] == "failed"]
        confirmed_new = False
        for o in fails:
            if confirmed_new and not o["known"]:
                continue        # this instance already has a counter-model that fails on the real code: one replay is enough
            rep = {"property": prop, "contract": r["contract"], "binding": r["binding"], "obligation": o["name"],
                   "function": getattr(c, "func", None), "inputs": o["inputs"], "solver": o["solver"],
                   "solver_detail": o["detail"], "known_tag": o["known"],
                   "replay_cmd": "./vc replay <this file>"}
            verdict = None
            if o["inputs"] and getattr(c, "replay", True):
                os.makedirs(replay_dir, exist_ok=True)
                path = os.path.join(replay_dir, safe_name(f"{inst}-{o['name']}") + ".json")
                json.dump(rep, open(path, "w"), indent=1)
                rc, out, err = run_native(["replay", path])
                try:
                    verdict = json.loads(out)
                except Exception:
                    verdict = {"status": "error", "why": (out + err)[-500:]}
                rep["native"] = verdict
                json.dump(rep, open(path, "w"), indent=1)
            else:
                path = None
            if verdict and verdict.get("status") == "fail":
                if o["known"] and o["known"] in kf:
                    findings_seen.setdefault(o["known"], {"replay": path, "why": verdict.get("why")})
                else:
                    if (inst, "confirmed") not in failing_reported:
                        failing_reported.add((inst, "confirmed"))
                        violations.append({"instance": inst, "obligation": o["name"], "replay": path,
                                           "why": verdict.get("why"), "confirmed": True})
                    confirmed_new = True
            else:
                o["unconfirmed"] = True
        unconfirmed = [o for o in fails if o.get("unconfirmed")]
        if unconfirmed and not confirmed_new:
            # solver says sat but the model does not fail natively: bounded search over the same contract
            new_fail = [f for f in smp.get("failures", []) if not (f.get("known") and f["known"] in kf)]
            if not new_fail and hasattr(c, "call"):
                big = _sample_task((r["contract"], r["binding"], seed + 7, 3000 if tier == "quick" else 20000))
                if "error" not in big:
                    smp = big
                    samples.append(big)
                    new_fail = [f for f in smp.get("failures", []) if not (f.get("known") and f["known"] in kf)]
            known_fail = [f for f in smp.get("failures", []) if f.get("known") and f["known"] in kf]
            for f in known_fail:
                findings_seen.setdefault(f["known"], {"replay": None, "why": f["why"], "inputs": f["inputs"]})
            only_known = all(o["known"] and o["known"] in kf for o in unconfirmed)
            if new_fail:
                f = new_fail[0]
                os.makedirs(replay_dir, exist_ok=True)
                path = os.path.join(replay_dir, safe_name(f"{inst}-sampled") + ".json")
                json.dump({"property": prop, "contract": r["contract"], "binding": r["binding"],
                           "obligation": unconfirmed[0]["name"], "inputs": f["inputs"], "native": {"status": "fail", "why": f["why"]},
                           "found_by": "bounded native search after an unconfirmed counter-model"}, open(path, "w"), indent=1)
                violations.append({"instance": inst, "obligation": unconfirmed[0]["name"], "replay": path,
                                   "why": f["why"], "confirmed": True})
            elif only_known:
                for o in unconfirmed:
                    findings_seen.setdefault(o["known"], {"replay": None, "why": "obligation fails inside the known-finding region"})
            else:
                o = [x for x in unconfirmed if not (x["known"] and x["known"] in kf)][0]
                os.makedirs(replay_dir, exist_ok=True)
                path = os.path.join(replay_dir, safe_name(f"{inst}-{o['name']}") + ".json")
                if not os.path.exists(path):
                    json.dump({"property": prop, "contract": r["contract"], "binding": r["binding"],
                               "obligation": o["name"], "inputs": o["inputs"], "solver": o["solver"],
                               "solver_detail": o["detail"]}, open(path, "w"), indent=1)
                violations.append({"instance": inst, "obligation": o["name"], "replay": path,
                                   "why": "obligation not discharged (solver: sat); model did not fail natively",
                                   "confirmed": False})
        # out of reach / unknown -> bounded stand-in decides
        unknowns = [o for o in r["obligations"] if o["status"] == "unknown"]
        if r["out_of_reach"] or unknowns:
            if "error" in smp:
                undecided.append({"instance": inst, "reason": f"bounded stand-in failed to run: {smp['error'][-300:]}"})
                continue
            new_fail = [f for f in smp.get("failures", []) if not (f.get("known") and f["known"] in kf)]
            for f in smp.get("failures", []):
                if f.get("known") and f["known"] in kf:
                    findings_seen.setdefault(f["known"], {"replay": None, "why": f["why"], "inputs": f["inputs"]})
            if new_fail:
                f = new_fail[0]
                os.makedirs(replay_dir, exist_ok=True)
                path = os.path.join(replay_dir, safe_name(f"{inst}-bounded") + ".json")
                json.dump({"property": prop, "contract": r["contract"], "binding": r["binding"], "obligation": "bounded",
                           "inputs": f["inputs"], "native": {"status": "fail", "why": f["why"]}}, open(path, "w"), indent=1)
                violations.append({"instance": inst, "obligation": "bounded-stand-in", "replay": path, "why": f["why"],
                                   "confirmed": True})
            elif getattr(c, "bounded", None) and r["out_of_reach"]:
                bounded.append({"function": getattr(c, "func", c.id), "instance": inst, "reason": r["out_of_reach"],
                                "declared": c.bounded, "bound": f"{smp.get('evaluations', 0)} seeded random + boundary inputs",
                                "evaluations": smp.get("evaluations", 0), "distinct": smp.get("distinct", 0)})
            else:
                undecided.append({"instance": inst, "reason": r["out_of_reach"] or f"{len(unknowns)} obligations unknown",
                                  "bounded_evaluations": smp.get("evaluations", 0)})
        else:
            # sampled failures on a fully proved instance mean the contract and the proof disagree: engine bug
            new_fail = [f for f in smp.get("failures", []) if not (f.get("known") and f["known"] in kf)]
            if new_fail and not fails:
                # the executable contract fails on a concrete input of the real code: that is a violation whatever the
                # engine concluded (the native run is the ground truth); the disagreement itself is reported as well
                f = new_fail[0]
                os.makedirs(replay_dir, exist_ok=True)
                path = os.path.join(replay_dir, safe_name(f"{inst}-native") + ".json")
                json.dump({"property": prop, "contract": r["contract"], "binding": r["binding"], "obligation": "native-contract-check",
                           "inputs": f["inputs"], "native": {"status": "fail", "why": f["why"]},
                           "note": "found by the native contract check; the engine had discharged this instance (engine / CPython "
                                   "disagreement, e.g. an unmodelled library function)"}, open(path, "w"), indent=1)
                print(f"WARNING property={prop}: {inst} was discharged by the engine but fails natively -- engine model and CPython disagree")
                violations.append({"instance": inst, "obligation": "native-contract-check", "replay": path, "why": f["why"],
                                   "confirmed": True})
            for f in smp.get("failures", []):
                if f.get("known") and f["known"] in kf:
                    findings_seen.setdefault(f["known"], {"replay": None, "why": f["why"], "inputs": f["inputs"]})

    # ---- CPython cross-check of the engine on the sampled inputs
    xc = crosscheck(results, sample_by_key, api)
    if xc["disagreements"]:
        d = xc["disagreements"][0]
        confirmed = [v for v in violations if v["confirmed"]]
        if confirmed:
            # a failing input replayed on the real code is ground truth whatever the engine's fidelity: report it (the
            # disagreement usually is the same defect seen twice: behaviour that depends on earlier calls in the process)
            print(f"WARNING property={prop}: engine and CPython disagree on {d}")
            write_evidence(prop, tier, seed, t0, results, confirmed, bounded, samples, api, note="engine/CPython disagreement", xc=xc)
            for v in confirmed:
                print(f"VIOLATION property={prop} replay={v['replay']} obligation={v['instance']}/{v['obligation']}")
                if v.get("why"):
                    print(f"  why: {v['why'] if isinstance(v['why'], str) else '; '.join(v['why'][:2])}")
            return 1
        print(f"CHECKER-BROKEN property={prop}: engine and CPython disagree on {d}")
        write_evidence(prop, tier, seed, t0, results, violations, bounded, samples, api, note="engine/CPython disagreement", xc=xc)
        return 3

    # vacuity
    for r in results:
        if not r["out_of_reach"] and (not r["obligations"] or not r.get("covers")):
            print(f"CHECKER-BROKEN property={prop}: {r['contract']} {r['binding']} generated zero obligations")
            return 3

    for fid, info in sorted(findings_seen.items()):
        print(f"KNOWN-FINDING: property={kf[fid].get('property') or prop} {fid} {kf[fid]['line'].split('what=', 1)[-1]}")
    ev = write_evidence(prop, tier, seed, t0, results, violations, bounded, samples, api, xc=xc,
                        findings=findings_seen, undecided=undecided)
    if violations:
        for v in violations:
            tail = "" if v["confirmed"] else " no-failing-input-found"
            print(f"VIOLATION property={prop} replay={v['replay']} obligation={v['instance']}/{v['obligation']}{tail}")
            if v.get("why"):
                print(f"  why: {v['why'] if isinstance(v['why'], str) else '; '.join(v['why'][:2])}")
        return 1
    if undecided:
        for u in undecided:
            print(f"UNDECIDED property={prop} obligation={u['instance']} reason={u['reason']}")
        return 2
    print(f"OK property={prop} tier={tier} obligations={ev['coverage']['obligations']} discharged={ev['coverage']['discharged']} "
          f"instances={len(results)} bounded={len(bounded)} wall={ev['wall_s']}s")
    return 0


def crosscheck(results, sample_by_key, api):
    """run the engine's own semantics on the concrete sampled inputs and compare with CPython's outcome"""
    from .verify import Verifier
    from .sym import PathCtx, set_ctx, OutOfReach
    from .objs import PyRaise, Env
    import ast
    v = Verifier(repo=REPO, verif=VERIF)
    snap = v._snapshot_state()
    agree = dis = skipped = 0
    disagreements = []
    for r in results:
        c = api.BY_ID[r["contract"]]
        if not hasattr(c, "call") or r["out_of_reach"]:
            continue
        smp = sample_by_key.get((r["contract"], json.dumps(r["binding"], sort_keys=True)), {})
        for case in smp.get("xcheck", [])[:25]:
            try:
                v._restore_state(snap)          # stand-ins installed by another contract's setup must not leak
                set_ctx(PathCtx())
                vars_ = dict(v.base_ns)
                for k, e in r["binding"].items():
                    vars_[k] = v.eval_expr(e)
                v.path_env = None
                v.concrete_schedule = None
                if "__schedule__" in case["inputs"]:
                    v.concrete_schedule = {"vals": eval(case["inputs"]["__schedule__"]), "pos": 0}
                for k, e in case["inputs"].items():
                    if k not in r["binding"] and not k.startswith("__"):
                        vars_[k] = v.interp.eval(ast.parse(e, mode="eval").body, Env(vars=dict(vars_), glob=v.interp.builtins))
                for stmt in getattr(c, "setup", ()):
                    v.exec_stmts(stmt, vars_)
                v.cur = None
                try:
                    val = v.interp.eval(ast.parse(c.call, mode="eval").body, Env(vars=vars_, glob=v.interp.builtins))
                    mine = "returned " + _repr_engine(val)
                except PyRaise as e:
                    mine = f"raised {e.exc.cls.name}"
            except (OutOfReach, Exception) as e:
                skipped += 1
                continue
            finally:
                set_ctx(None)
                v.concrete_schedule = None
            theirs = case.get("real") or ""
            if theirs.startswith("raised "):
                theirs_n = "raised " + theirs.split(":")[0].split(".")[-1]
            else:
                theirs_n = theirs
            if "<" in mine or "<" in theirs_n or "..." in theirs_n:
                skipped += 1
                continue
            if mine == theirs_n:
                agree += 1
            else:
                dis += 1
                if len(disagreements) < 5:
                    disagreements.append({"contract": r["contract"], "binding": r["binding"], "inputs": case["inputs"],
                                          "engine": mine, "cpython": theirs})
    return {"agree": agree, "disagree": dis, "skipped": skipped, "disagreements": disagreements}


def _repr_engine(v):
    from .objs import IObj, IClass, IByteArray
    from .sym import Sym
    if isinstance(v, IByteArray):
        return "bytearray(" + repr(v.value) + ")"
    if isinstance(v, (IObj, IClass, Sym)):
        return "<obj>"
    if isinstance(v, (list, tuple, dict)):
        r = repr(v)
        return r
    return repr(v)


def write_evidence(prop, tier, seed, t0, results, violations, bounded, samples, api, note=None, xc=None, findings=None,
                   undecided=None):
    from .lib import AXIOMS_USED
    n_obl = n_dis = 0
    by_solver = {}
    secs = 0.0
    funcs = {}
    inlined, substituted = set(), set()
    sample_obls = []
    paths = 0
    known_region = 0
    for r in results:
        if "crash" in r:
            continue
        paths += r.get("paths", 0)
        for o in r["obligations"]:
            if o.get("known") and findings and o["known"] in findings and o["status"] != "discharged":
                known_region += 1
                continue
            n_obl += 1
            if o["status"] == "discharged":
                n_dis += 1
                by_solver[o["solver"]] = by_solver.get(o["solver"], 0) + 1
            secs += o["secs"]
            if len(sample_obls) < 6 and o["status"] == "discharged" and o["solver"] != "syntactic":
                sample_obls.append({"obligation": f"{r['contract']}{list(r['binding'].values())}/{o['name']}",
                                    "status": o["status"], "solver": o["solver"], "secs": o["secs"]})
        c = api.BY_ID[r["contract"]]
        f = getattr(c, "func", None)
        if f:
            funcs.setdefault(f, 0)
            funcs[f] += 1
        inlined.update(r.get("inlined", ()))
        substituted.update(r.get("substituted", ()))
    fps = []
    try:
        from .verify import Verifier, function_fingerprint
        v = Verifier(repo=REPO, verif=VERIF)
        for f in sorted(funcs):
            fp = function_fingerprint(v.interp, f)
            fp["instances"] = funcs[f]
            fps.append(fp)
    except Exception:
        pass
    assumed = sorted({c.id + ": " + (c.note or "assumed environment contract") for c in api.REGISTRY
                      if getattr(c, "assumed", False) and prop in c.props})
    all_ok = (n_obl == n_dis and n_obl > 0 and not violations and not undecided)
    cov = {
        "obligations": n_obl, "discharged": n_dis,
        "checker_cmd": f"./vc check {prop} --tier {tier}",
        "trusted_base": ["pyvc engine (interp.py, ops.py, sym.py, strs.py, verify.py)", "z3 %s" % _z3v(), "cvc5 1.0.3 (fallback on unknown)",
                         "spec/*.py reference functions (the oracle; transcribed from the CIP/Logix/PCCC documents)"]
        + sorted("axiom: " + a for a in AXIOMS_USED) + ["assumed: " + a for a in assumed],
        "by_backend": by_solver, "solver_seconds": round(secs, 3), "paths_explored": paths,
        "contract_instances": len([r for r in results if "crash" not in r]),
        "functions_under_contract": fps,
        "callees_replaced_by_contract": sorted(substituted),
        "callees_inlined_real_body": sorted(inlined),
        "vacuity": {"instances_with_reachable_body": sum(1 for r in results if r.get("covers", 0) > 0),
                    "paths_reaching_the_function": sum(r.get("covers", 0) for r in results),
                    "infeasible_paths_pruned": sum(r.get("aborted", 0) for r in results)},
        "crosscheck_cpython": xc or {},
        "bounded": bounded,
        "bounded_native_samples": {"evaluations": sum(s.get("evaluations", 0) for s in samples if "error" not in s),
                                   "distinct_inputs": sum(s.get("distinct", 0) for s in samples if "error" not in s),
                                   "rule": "seeded boundary/bit-pattern/random inputs drawn from each contract's parameter "
                                           "generators, real function vs reference, natively; never counted as proved"},
        "known_findings": {k: (v.get("why") if isinstance(v.get("why"), str) else (v.get("why") or [""])[0]) for k, v in (findings or {}).items()},
        "obligations_inside_known_finding_regions": known_region,
        "undecided": undecided or [],
        "out_of_reach": [{"contract": r["contract"], "binding": r["binding"], "reason": r["out_of_reach"]}
                         for r in results if r.get("out_of_reach")],
        "samples": sample_obls or [{"note": "no solver-discharged obligation in this run"}],
        "evaluations": max(1, paths), "distinct_nontrivial": max(2, n_obl),
        "rule": "one evaluation = one feasible path of a function under contract; distinct_nontrivial = proof obligations generated",
        "explanation": note or ("every obligation generated from the current source was discharged" if all_ok else
                                "see violations / undecided"),
    }
    ev = {"property_id": prop, "tier": tier, "seed": seed, "level": "proof" if n_obl > 0 else "other",
          "coverage": cov, "assumptions": ASSUMPTIONS + ["assumed contract: " + a for a in assumed],
          "wall_s": round(time.time() - t0, 2), "violations": len(violations)}
    # runs against a scratch copy of the repository (mutation self-tests) must not overwrite the evidence of /repo
    evdir = os.path.join(VERIF, "evidence") if os.path.realpath(REPO) == "/repo" else \
        os.environ.get("PYVC_SCRATCH_EVIDENCE", "/var/tmp/pyvc-scratch-evidence")
    os.makedirs(evdir, exist_ok=True)
    json.dump(ev, open(os.path.join(evdir, f"{prop}.json"), "w"), indent=1, default=str)
    return ev


def _z3v():
    try:
        import z3
        return z3.get_version_string()
    except Exception:
        return "?"


def replay(path):
    rc, out, err = run_native(["replay", path])
    print(out.strip() or err.strip())
    return rc


def setup():
    import compileall
    ok = compileall.compile_dir(os.path.join(VERIF, "pyvc"), quiet=1) and compileall.compile_dir(os.path.join(VERIF, "spec"), quiet=1)
    import z3  # noqa
    for tool in (NATIVE_PY, "/usr/bin/cvc5"):
        if not os.path.exists(tool):
            print(f"missing tool: {tool}")
            return 1
    rc, out, err = run_native(["help"])
    print("setup ok" if ok else "byte-compilation failed")
    return 0 if ok else 1


def main(argv=None):
    ap = argparse.ArgumentParser(prog="vc")
    sub = ap.add_subparsers(dest="cmd")
    c = sub.add_parser("check")
    c.add_argument("prop")
    c.add_argument("--tier", default=os.environ.get("VERIF_TIER", "quick"))
    r = sub.add_parser("replay")
    r.add_argument("path")
    sub.add_parser("setup")
    sub.add_parser("list")
    a = ap.parse_args(argv)
    seed = int(os.environ.get("VERIF_SEED", "1"))
    if a.cmd == "check":
        tier = os.environ.get("VERIF_TIER") or a.tier
        try:
            return check(a.prop, tier, seed)
        except Exception:
            traceback.print_exc()
            return 3
    if a.cmd == "replay":
        return replay(a.path)
    if a.cmd == "setup":
        return setup()
    if a.cmd == "list":
        api = load_contracts()
        for c in api.REGISTRY + api.LEMMAS:
            print(c.id, c.props, len(c.instances()), "assumed" if getattr(c, "assumed", False) else "")
        return 0
    ap.print_help()
    return 3
