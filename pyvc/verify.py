"""pyvc.verify -- verification driver: path exploration, obligations, modular call substitution, loop cut points."""
import ast
import hashlib
import os
import time

import z3

from . import api, ops
from .api import _untag, _Tagged, _Made
from .interp import Interp, NATIVE_EXC
from .objs import (PyRaise, PathEnd, _Break, _Continue, IObj, IClass, IFunc, IBound, IStream, IByteArray, Env, MISSING,
                   INative, IModule, IIter)
from .sym import (PathCtx, set_ctx, ctx, OutOfReach, PathAbort, PathBudget, SBool, SInt, Rope, B, T, I, mk_bool, simp,
                  rope_len_term, Sym)

CURRENT = None  # the Verifier running right now (used by api.P generators)


class Obligation:
    __slots__ = ("name", "status", "solver", "secs", "detail", "inputs", "known")

    def __init__(self, name, status, solver="z3", secs=0.0, detail=None, inputs=None, known=None):
        self.name, self.status, self.solver, self.secs = name, status, solver, secs
        self.detail, self.inputs, self.known = detail, inputs, known

    def as_dict(self):
        return {"name": self.name, "status": self.status, "solver": self.solver, "secs": round(self.secs, 4),
                "detail": self.detail, "inputs": self.inputs, "known": self.known}


class InstanceResult:
    def __init__(self, cid, binding):
        self.cid, self.binding = cid, binding
        self.obligations = []
        self.paths = 0
        self.aborted_paths = 0
        self.out_of_reach = None
        self.inlined = set()
        self.substituted = set()
        self.solver_calls = 0
        self.secs = 0.0
        self.notes = set()
        self.imprecise_paths = 0
        self.covers = 0

    def failed(self):
        return [o for o in self.obligations if o.status == "failed"]

    def as_dict(self):
        return {"contract": self.cid, "binding": self.binding, "paths": self.paths, "out_of_reach": self.out_of_reach,
                "obligations": [o.as_dict() for o in self.obligations], "inlined": sorted(self.inlined),
                "substituted": sorted(self.substituted), "secs": round(self.secs, 3), "notes": sorted(self.notes),
                "solver_calls": self.solver_calls}


def clone_value(v, memo=None):
    """structural copy of mutable interpreter values (streams, bytearrays, lists, dicts, plain objects)"""
    if memo is None:
        memo = {}
    if id(v) in memo:
        return memo[id(v)]
    if isinstance(v, IStream):
        s = IStream(v.buf)
        s.pos = v.pos
        memo[id(v)] = s
        return s
    if isinstance(v, IByteArray):
        r = IByteArray(v.value)
        memo[id(v)] = r
        return r
    if isinstance(v, list):
        r = []
        memo[id(v)] = r
        r.extend(clone_value(x, memo) for x in v)
        return r
    if isinstance(v, dict):
        r = {}
        memo[id(v)] = r
        for k, x in v.items():
            r[k] = clone_value(x, memo)
        return r
    if isinstance(v, tuple):
        return tuple(clone_value(x, memo) for x in v)
    if isinstance(v, IObj) and not v.cls.issub(CURRENT.interp.exc["BaseException"]):
        r = IObj(v.cls, {})
        memo[id(v)] = r
        for k, x in v.attrs.items():
            r.attrs[k] = clone_value(x, memo)
        return r
    if isinstance(v, IIter):
        r = IIter(v.items)
        r.pos = v.pos
        r.is_gen = v.is_gen
        return r
    return v


class Verifier:
    def __init__(self, repo="/repo", verif="/verif", timeout_ms=20000, tier="quick"):
        global CURRENT
        self.repo, self.verif, self.tier = repo, verif, tier
        self.interp = Interp({"pycomm3": repo, "spec": verif})
        self.interp.load_module("pycomm3")
        self.timeout_ms = timeout_ms
        self.base_ns = {"pycomm3": self.interp.modules["pycomm3"], "spec": self.interp.load_module("spec"),
                        "io": self.interp.load_module("io")}
        for f in sorted(os.listdir(os.path.join(verif, "spec"))):
            if f.endswith(".py") and f != "__init__.py":
                self.interp.load_module("spec." + f[:-3])
        self._install_helpers()
        self.by_func = {}
        for c in api.REGISTRY:
            self.by_func.setdefault(c.func, []).append(c)
        self.cur = None          # current contract under verification
        self.cur_result = None
        self.entered = False
        self.path_env = None
        self.interp.call_hook = self._call_hook
        self.interp.loop_hook = self._loop_hook
        CURRENT = self

    # ------------------------------------------------------------------ helpers visible to contract expressions
    def _install_helpers(self):
        N = INative
        it = self.interp

        def implies(a, b):
            ta, tb = ops.truth_term(a), ops.truth_term(b)
            if ta is None or tb is None:
                raise OutOfReach("implies over non-boolean")
            if isinstance(ta, bool):
                return (not ta) or (tb if isinstance(tb, bool) else mk_bool(tb))
            return mk_bool(z3.Implies(ta, B(tb) if not isinstance(tb, bool) else z3.BoolVal(tb)))

        def stream_of(buf):
            if isinstance(buf, IStream):
                return buf
            if isinstance(buf, IByteArray):
                buf = buf.value
            if not ops.is_bytes(buf):
                raise TypeError("a bytes-like object is required")
            return IStream(buf)

        def nondet_int(lo=None, hi=None, name="nd"):
            c = ctx()
            t = c.fresh_int(name)
            if lo is not None:
                c.assume(t >= T(lo))
            if hi is not None:
                c.assume(t <= T(hi))
            return SInt(t)

        def nondet_bool(name="ndb"):
            return SBool(ctx().fresh_bool(name))

        def nondet_bytes(length, name="ndbytes"):
            from .sym import Base, BS, mk_rope
            c = ctx()
            b = Base(c.fresh_name(name), "bytes", simp(T(length)))
            return mk_rope("bytes", [BS(b, 0, T(length))])

        def assume(cond):
            t = ops.truth_term(cond)
            if t is None:
                raise OutOfReach("assume over non-boolean")
            ctx().assume(t if not isinstance(t, bool) else t)

        def type_name(v):
            return ops.type_name(v)

        self.concrete_schedule = None

        def nd_int(lo, hi):
            sch = self.concrete_schedule
            if sch is not None:
                # concrete replay of a schedule (CPython cross-check): same semantics as spec/nondet.py
                if sch["pos"] < len(sch["vals"]):
                    v = sch["vals"][sch["pos"]]
                    sch["pos"] += 1
                elif sch["vals"]:
                    v = sch["vals"][-1]
                else:
                    v = lo
                if v < lo:
                    v = lo
                if hi is not None and v > hi:
                    v = hi
                return v
            c = ctx()
            t = c.fresh_int("nd")
            if lo is not None:
                c.assume(t >= T(lo))
            if hi is not None:
                c.assume(t <= T(hi))
            c.ghost.setdefault("nondet_log", []).append(t)
            return SInt(t)

        def nd_bool():
            return ops.py_eq(nd_int(0, 1), 1)
        nd = self.interp.modules.get("spec.nondet")
        if nd is not None:
            nd.ns["nondet_int"] = N("nondet_int", nd_int)
            nd.ns["nondet_bool"] = N("nondet_bool", nd_bool)
            for m in self.interp.modules.values():
                if isinstance(m, IModule) and m.name.startswith("spec."):
                    for k in ("nondet_int", "nondet_bool"):
                        if k in m.ns and m is not nd:
                            m.ns[k] = nd.ns[k]
        ab = self.interp.modules.get("spec.abstract")
        if ab is not None:
            from .sym import BX, mk_rope, Rope as _Rope
            from .objs import IFunc as _IFunc

            def vkey(v):
                if isinstance(v, (SInt, SBool)):
                    return ("t", T(v).sexpr())
                if isinstance(v, _Rope):
                    return ("r", v.kind, tuple(repr(ch) for ch in v.chunks))
                if isinstance(v, (list, tuple)):
                    return ("l", tuple(vkey(x) for x in v))
                if isinstance(v, dict):
                    return ("d", tuple((k, vkey(x)) for k, x in v.items()))
                if isinstance(v, (IObj, IClass)):
                    return ("o", id(v))
                return ("c", repr(v))

            def bytes_of(interp_, args, kwargs):
                fn = args[0]
                name = fn.qualname if isinstance(fn, _IFunc) else repr(fn)
                key = ("abstract", name, tuple(vkey(a) for a in args[1:]))
                c = ctx()
                import hashlib
                ln = z3.Int("abslen_" + hashlib.md5(repr(key).encode()).hexdigest()[:12])
                if key not in c.ghost:
                    c.ghost[key] = True
                    c.assume(ln >= 0)
                return mk_rope("bytes", [BX(key, ln)])
            ab.ns["bytes_of"] = INative("spec.abstract.bytes_of", bytes_of, raw=True)
        sq = self.interp.modules.get("spec.seq")
        if sq is not None:
            from .objs import IGen

            def at_state(gen, v, current):
                if not isinstance(gen, IGen):
                    raise TypeError("not a generator")
                gen.env.vars["val"] = v          # havoc of the suspended frame: last drawn value is v
                return gen

            def gen_args(gen):
                return (gen.env.vars["stop"], gen.env.vars["start"])
            sq.ns["at_state"] = N("spec.seq.at_state", at_state)
            sq.ns["gen_args"] = N("spec.seq.gen_args", gen_args)
            sq.ns["gen_val"] = N("spec.seq.gen_val", lambda gen: gen.env.vars["val"])
        self.base_ns.update({
            "same": N("same", lambda a, b: it.eq(a, b)),      # value identity (NaN equals NaN), as the native comparison
            "implies": N("implies", implies), "stream_of": N("stream_of", stream_of),
            "nondet_int": N("nondet_int", nondet_int), "nondet_bool": N("nondet_bool", nondet_bool),
            "nondet_bytes": N("nondet_bytes", nondet_bytes), "assume": N("assume", assume),
            "type_name": N("type_name", type_name),
        })

    def eval_expr(self, expr, extra=None):
        node = ast.parse(expr, mode="eval").body
        vars_ = dict(self.base_ns)
        if self.path_env:
            vars_.update(self.path_env)
        if extra:
            vars_.update(extra)
        env = Env(vars=vars_, glob=self.interp.builtins)
        return self.interp.eval(node, env)

    def exec_stmts(self, src, vars_):
        tree = ast.parse(src)
        env = Env(vars=vars_, parent=Env(vars=dict(self.base_ns), glob=self.interp.builtins), glob=self.interp.builtins)
        self.interp.exec_block(tree.body, env)

    # ------------------------------------------------------------------ modular call substitution
    def _call_hook(self, interp, fn, args, kwargs):
        c = self.cur
        if c is None:
            return NotImplemented
        if not self.entered and fn.qualname == getattr(c, "func", None):
            self.entered = True
            self.entry_fn = fn
            return NotImplemented
        if not getattr(c, "use_contracts", True):
            return NotImplemented
        cands = self.by_func.get(fn.qualname)
        if not cands or fn.qualname in getattr(c, "inline", ()):
            if self.cur_result is not None and fn.module is not None and fn.module.name.startswith("pycomm3"):
                self.cur_result.inlined.add(fn.qualname)
            return NotImplemented
        try:
            bound = interp.bind_args(fn, args, kwargs)
        except PyRaise:
            return NotImplemented
        for cand in cands:
            if cand.ref is None or not cand.callsite:
                continue
            ok = True
            if cand.applies is not None:
                try:
                    ok = bool(cand.applies(bound))
                except Exception:
                    ok = False
            elif cand.bind:
                # default applicability: the bound names match one of the instances (by identity of evaluated exprs)
                ok = self._matches_instance(cand, bound)
            if not ok:
                continue
            self.cur_result.substituted.add(f"{fn.qualname} -> {cand.id}")
            return self._apply_contract(cand, bound)
        if self.cur_result is not None:
            self.cur_result.inlined.add(fn.qualname)
        return NotImplemented

    def _matches_instance(self, cand, bound):
        cache = getattr(cand, "_inst_vals", None)
        if cache is None:
            cache = []
            saved = self.path_env
            self.path_env = None
            try:
                for b in cand.instances():
                    try:
                        cache.append({k: self.eval_expr(v) for k, v in b.items()})
                    except (OutOfReach, PyRaise):
                        pass
            finally:
                self.path_env = saved
            cand._inst_vals = cache
        for inst in cache:
            if all(k in bound and bound[k] is v for k, v in inst.items()):
                return True
        return False

    def _apply_contract(self, cand, bound):
        vars_ = dict(self.base_ns)
        vars_["caller"] = dict(self.path_env or {})     # ghost inputs of the contract under verification
        vars_.update(bound)
        env = Env(vars=vars_, glob=self.interp.builtins)
        for i, r in enumerate(cand.requires):
            t = ops.truth_term(self.interp.eval(ast.parse(r, mode="eval").body, env))
            if t is None:
                raise OutOfReach(f"requires clause of {cand.id} is not boolean")
            self.check(f"callsite/{cand.id}/requires#{i}", t)
            ctx().assume(t)
        from .lib import _has_sym
        use_abs = cand.callsite_ref and any(_has_sym(v) for v in bound.values())
        result = self.interp.eval(ast.parse(cand.callsite_ref if use_abs else cand.ref, mode="eval").body, env)
        if cand.callsite_ensures:
            env2 = Env(vars=dict(vars_, result=result), glob=self.interp.builtins)
            for e in cand.callsite_ensures:
                t = ops.truth_term(self.interp.eval(ast.parse(e, mode="eval").body, env2))
                ctx().assume(t)
        return result

    # ------------------------------------------------------------------ loop cut points
    def _loop_ordinal(self, fn, node):
        loops = getattr(fn, "_loops", None)
        if loops is None:
            loops = sorted((n for n in ast.walk(fn.node) if isinstance(n, (ast.For, ast.While))),
                           key=lambda n: (n.lineno, n.col_offset))
            fn._loops = loops
        for i, n in enumerate(loops):
            if n is node:
                return i + 1
        return None

    def _loop_hook(self, interp, node, env, kind, it=None):
        c = self.cur
        if c is None or not getattr(c, "loops", None) or kind == "comp" or not interp.frames:
            return NotImplemented
        fn = interp.frames[-1]
        if fn is not getattr(self, "entry_fn", None):
            return NotImplemented
        ordinal = self._loop_ordinal(fn, node)
        spec = c.loops.get(ordinal)
        if spec is None:
            return NotImplemented
        if kind != "while":
            raise OutOfReach("cut points on for loops are not supported")
        cx = ctx()

        def inv_env():
            v = dict(self.base_ns)
            v.update(self.path_env or {})
            v.update(env.vars)
            return Env(vars=v, parent=env.parent, glob=env.glob, func=env.func)

        def ev(expr):
            return interp.eval(ast.parse(expr, mode="eval").body, inv_env())

        def solved_forms(tag):
            # "=expr" havoc entries are invariants in solved form: name == expr must hold here
            for name, p in spec.get("havoc", {}).items():
                if isinstance(p, str):
                    eq = interp.eq(ev(name), ev(p[1:]))
                    self.check(f"loop{ordinal}/{tag}[{name} == {p[1:]}]", eq if isinstance(eq, bool) else ops.truth_term(eq))

        # (1) invariant holds on entry
        for i, inv in enumerate(spec.get("invariant", ())):
            self.check(f"loop{ordinal}/inv-entry#{i}", ops.truth_term(ev(inv)))
        solved_forms("inv-entry")
        # (2) arbitrary iteration: havoc the loop-modified state (locals and object fields), assume the invariant.
        #     a havoc value written "=expr" states the invariant in solved form (the variable IS that expression)
        for name, p in spec.get("havoc", {}).items():
            val = ev(p[1:]) if isinstance(p, str) else _untag(p.make(f"{name.replace('.', '_')}_L{ordinal}"))
            if "." in name:
                objexpr, attr = name.rsplit(".", 1)
                interp.setattr_(ev(objexpr), attr, val)
            else:
                env.vars[name] = val
        # frame of the loop: whatever else the body assigns is unknown after an arbitrary number of iterations too --
        # locals the contract does not describe are havocked by their type (a counter becomes any integer), object fields
        # and containers modified in the loop but not described make the instance out of reach (never silently kept)
        declared = set(spec.get("havoc", {}))
        for name in sorted(self._loop_assigned_names(node)):
            if name in declared or name not in env.vars:
                continue
            cur = env.vars[name]
            if isinstance(cur, bool) or isinstance(cur, SBool):
                env.vars[name] = SBool(cx.fresh_bool(f"{name}_L{ordinal}"))
            elif isinstance(cur, (int, SInt)):
                env.vars[name] = SInt(cx.fresh_int(f"{name}_L{ordinal}"))
            elif cur is None:
                continue
            else:
                raise OutOfReach(f"loop {ordinal} modifies `{name}` which the loop contract does not describe")
        for attr in sorted(self._loop_assigned_attrs(node)):
            if attr not in declared:
                raise OutOfReach(f"loop {ordinal} modifies `{attr}` which the loop contract does not describe")
        for inv in spec.get("invariant", ()):
            cx.assume(ops.truth_term(ev(inv)))
        if interp.truth(interp.eval(node.test, env)):
            before = ev(spec["decreases"]) if spec.get("decreases") else None
            try:
                interp.exec_block(node.body, env)
            except _Break:
                return None  # leaves the loop through break: continue after it
            except _Continue:
                pass
            for i, inv in enumerate(spec.get("invariant", ())):
                self.check(f"loop{ordinal}/inv-preserved#{i}", ops.truth_term(ev(inv)))
            solved_forms("inv-preserved")
            if before is not None:
                after = ev(spec["decreases"])
                self.check(f"loop{ordinal}/variant-decreases", simp(z3.And(T(after) < T(before), T(before) >= 0))
                           if (ops.is_sym(after) or ops.is_sym(before)) else (after < before and before >= 0))
            raise PathEnd()
        interp.exec_block(node.orelse, env)
        return None

    @staticmethod
    def _loop_targets(node):
        out = []
        for sub in ast.walk(node):
            if isinstance(sub, (ast.FunctionDef, ast.Lambda, ast.ClassDef)):
                continue
            tg = []
            if isinstance(sub, ast.Assign):
                tg = sub.targets
            elif isinstance(sub, (ast.AugAssign, ast.AnnAssign)):
                tg = [sub.target]
            elif isinstance(sub, (ast.For, ast.comprehension)):
                tg = [sub.target]
            elif isinstance(sub, ast.NamedExpr):
                tg = [sub.target]
            elif isinstance(sub, ast.With):
                tg = [i.optional_vars for i in sub.items if i.optional_vars is not None]
            for t in tg:
                for e in ast.walk(t):
                    if isinstance(e, (ast.Name, ast.Attribute, ast.Subscript)):
                        out.append(e)
        return out

    def _loop_assigned_names(self, node):
        return {e.id for e in self._loop_targets(node) if isinstance(e, ast.Name) and isinstance(e.ctx, ast.Store)}

    def _loop_assigned_attrs(self, node):
        out = set()
        for e in self._loop_targets(node):
            if isinstance(e, ast.Attribute) and isinstance(e.ctx, ast.Store):
                try:
                    out.add(ast.unparse(e))
                except Exception:
                    out.add("<attribute>")
            elif isinstance(e, ast.Subscript) and isinstance(e.ctx, ast.Store):
                try:
                    out.add(ast.unparse(e.value) + "[...]")
                except Exception:
                    out.add("<item>")
        return out

    # ------------------------------------------------------------------ obligations
    def check(self, name, goal, inputs_fn=None):
        """prove goal under the current path condition"""
        res = self.cur_result
        cx = ctx()
        occ = cx.ghost.setdefault("check_occurrence", {})
        occ[name] = occ.get(name, 0) + 1
        key = (name, occ[name], tuple(t[0] for t in cx.trace))
        if key in self._seen:
            return
        self._seen.add(key)
        full = f"{name}/path{self._path_no}"
        known = self._known_tag
        if goal is None:
            raise OutOfReach(f"obligation {name} is not boolean")
        if isinstance(goal, SBool):
            goal = goal.t
        t0 = time.time()
        if isinstance(goal, bool):
            if goal:
                res.obligations.append(Obligation(full, "discharged", "syntactic", 0.0, known=known))
                return
            r = cx.check_sat()
            neg = None
        else:
            goal = simp(goal)
            if z3.is_true(goal):
                res.obligations.append(Obligation(full, "discharged", "syntactic", 0.0, known=known))
                return
            neg = z3.Not(goal)
            r = cx.check_sat(neg)
        secs = time.time() - t0
        if r == z3.unsat:
            res.obligations.append(Obligation(full, "discharged", "z3", secs, known=known))
            return
        if r == z3.unknown:
            r2 = self._cvc5(cx, neg)
            if r2 == "unsat":
                res.obligations.append(Obligation(full, "discharged", "cvc5", time.time() - t0, known=known))
                return
            if r2 != "sat":
                res.obligations.append(Obligation(full, "unknown", "z3+cvc5", time.time() - t0,
                                                  detail=str(cx.solver.reason_unknown()), known=known))
                return
            # cvc5 says sat but gives us no model through this interface: ask z3 for a model with more time
            cx.solver.set("timeout", self.timeout_ms * 4)
            r = cx.check_sat(neg) if neg is not None else cx.check_sat()
            cx.solver.set("timeout", self.timeout_ms)
            if r != z3.sat:
                res.obligations.append(Obligation(full, "failed", "cvc5", time.time() - t0,
                                                  detail="cvc5: sat; z3 produced no model", inputs=None, known=known))
                return
        # sat: extract a model and the concrete inputs
        cx.solver.push()
        if neg is not None:
            cx.solver.add(neg)
        inputs = None
        detail = None
        try:
            got = False
            if cx.soft:
                cx.solver.push()
                for sft in cx.soft:
                    cx.solver.add(sft)
                got = cx.solver.check() == z3.sat
                if got:
                    m = cx.solver.model()
                cx.solver.pop()
            if got or cx.solver.check() == z3.sat:
                if not got:
                    m = cx.solver.model()
                inputs = self._concretize_inputs(m)
                detail = "imprecise-path" if cx.imprecise else None
        except Exception as e:  # model extraction must never decide a verdict
            detail = f"model extraction failed: {e!r}"
        finally:
            cx.solver.pop()
        res.obligations.append(Obligation(full, "failed", "z3", time.time() - t0, detail=detail, inputs=inputs,
                                          known=known))

    def _cvc5(self, cx, neg):
        import subprocess
        import tempfile
        s = z3.Solver()
        for p in cx.pc:
            s.add(p)
        if neg is not None:
            s.add(neg)
        smt = "(set-logic ALL)\n" + s.to_smt2()
        try:
            with tempfile.NamedTemporaryFile("w", suffix=".smt2", delete=False, dir=os.environ.get("TMPDIR", "/var/tmp")) as f:
                f.write(smt)
                path = f.name
            try:
                out = subprocess.run(["/usr/bin/cvc5", "--lang=smt2", f"--tlimit={self.timeout_ms}", path],
                                     capture_output=True, text=True, timeout=self.timeout_ms / 1000 + 5)
                first = out.stdout.strip().splitlines()[0] if out.stdout.strip() else "unknown"
                return first
            finally:
                os.unlink(path)
        except Exception:
            return "unknown"

    def _concretize_inputs(self, model):
        out = {}
        log = ctx().ghost.get("nondet_log")
        if log:
            out["__schedule__"] = repr([model.eval(t, model_completion=True).as_long() for t in log])
        for name, (p, raw) in self._inputs.items():
            try:
                out[name] = p.concretize(raw, model)
            except Exception as e:
                out[name] = f"<unconcretizable: {e!r}>"
        return out

    # ------------------------------------------------------------------ one contract instance
    def _snapshot_state(self):
        """namespaces of the loaded modules of the package under test and of the classes reachable from them (shallow)"""
        seen, out = set(), []

        def visit_class(c):
            if id(c) in seen:
                return
            seen.add(id(c))
            out.append((c.ns, dict(c.ns)))
            for v in list(c.ns.values()):
                if isinstance(v, IClass):
                    visit_class(v)
        for name, m in list(self.interp.modules.items()):
            if isinstance(m, IModule) and (name == "pycomm3" or name.startswith("pycomm3.")):
                out.append((m.ns, dict(m.ns)))
                for v in list(m.ns.values()):
                    if isinstance(v, IClass):
                        visit_class(v)
        return out

    def _restore_state(self, snap):
        for ns, saved in snap:
            if ns.keys() != saved.keys() or any(ns[k] is not saved[k] for k in saved):
                ns.clear()
                ns.update(saved)

    def verify_instance(self, contract, binding, max_paths=None):
        global CURRENT
        CURRENT = self
        res = InstanceResult(contract.id, binding)
        self.cur, self.cur_result = contract, res
        self._seen = set()
        max_paths = max_paths or getattr(contract, "max_paths", None) or 3000
        prefix = []
        t0 = time.time()
        self._path_no = 0
        snap = self._snapshot_state()
        try:
            while True:
                # every path (and every instance) starts from the state the package has after import: stand-ins installed
                # by setup lines, class-level caches filled by an earlier path etc. do not leak
                self._restore_state(snap)
                cx = PathCtx(prefix, timeout_ms=self.timeout_ms)
                set_ctx(cx)
                self._path_no += 1
                self._known_tag = None
                self.entered = False
                self.entry_fn = None
                try:
                    if isinstance(contract, api.Lemma):
                        self._run_lemma_path(contract, binding, cx)
                    else:
                        self._run_path(contract, binding, cx)
                    res.paths += 1
                    if cx.imprecise:
                        res.imprecise_paths += 1
                except PathAbort:
                    res.aborted_paths += 1
                except PathEnd:
                    res.paths += 1
                except PathBudget as e:
                    res.out_of_reach = f"path budget: {e}"
                    break
                except OutOfReach as e:
                    res.out_of_reach = str(e)
                    break
                except PyRaise as e:
                    res.out_of_reach = f"contract harness raised {e.exc.cls.name}: {e.exc.attrs.get('args')}"
                    break
                except RecursionError:
                    res.out_of_reach = "python recursion limit in engine"
                    break
                finally:
                    res.solver_calls += cx.solver_calls
                    res.notes.update(cx.notes)
                    set_ctx(None)
                tr = cx.trace
                idx = None
                for i in range(len(tr) - 1, -1, -1):
                    if tr[i][1] and tr[i][0]:
                        idx = i
                        break
                if idx is None:
                    break
                prefix = [list(t) for t in tr[:idx]] + [[False, False]]
                if res.paths + res.aborted_paths >= max_paths:
                    res.out_of_reach = f"more than {max_paths} paths"
                    break
        finally:
            self._restore_state(snap)
            self.cur, self.cur_result = None, None
            self.path_env = None
            set_ctx(None)
        res.secs = time.time() - t0
        return res

    def _make_inputs(self, contract, binding, cx):
        vars_ = {}
        self._inputs = {}
        self.path_env = vars_
        for k, expr in binding.items():
            vars_[k] = self.eval_expr(expr)
            self._inputs[k] = (api.P.const(expr), None)
        for k, p in contract.params.items():
            raw = p.make(k)
            self._inputs[k] = (p, raw)
            vars_[k] = _untag(raw)
        for r in contract.requires:
            t = ops.truth_term(self.eval_expr(r))
            if t is None:
                raise OutOfReach("requires clause is not boolean")
            cx.assume(t)
        for stmt in getattr(contract, "setup", ()):
            try:
                self.exec_stmts(stmt, vars_)
            except PyRaise as e:
                # the setup (building the input from the reference) failed: this input is outside the precondition
                self.cur_result.notes.add(f"setup raised {e.exc.cls.name}: {str(e.exc.attrs.get('args'))[:100]}")
                raise PathAbort()
        return vars_

    def _run_outcome(self, expr, vars_):
        try:
            node = ast.parse(expr, mode="eval").body
            env = Env(vars=dict(self.base_ns, **vars_), glob=self.interp.builtins)
            return ("ret", self.interp.eval(node, env))
        except PyRaise as e:
            return ("exc", e.exc)

    def _run_path(self, contract, binding, cx):
        vars_ = self._make_inputs(contract, binding, cx)
        for fid, pred in contract.known:
            if self.interp.truth(self.eval_expr(pred)):
                self._known_tag = fid
                break
        if not cx.path_feasible():
            raise PathAbort()
        ref_vars = clone_value(vars_) if contract.ref else None
        self.entered = False
        real = self._run_outcome(contract.call, vars_)
        if not self.entered and not getattr(contract, "no_entry_check", False):
            raise OutOfReach(f"call expression never entered {contract.func}")
        self.cur_result.covers += 1
        # exception freedom
        if contract.raises_only is not None and real[0] == "exc":
            allowed = [self.eval_expr(e) for e in contract.raises_only]
            ok = any(real[1].cls.issub(a) for a in allowed)
            self.check(f"raises-only[{real[1].cls.name}]", ok)
        if contract.ref:
            saved_cur = self.cur
            # the reference runs with call substitution on as well (nested references), but never "enters"
            self.entered = True
            ref = self._run_outcome(contract.ref, ref_vars)
            self._compare(contract, real, ref, vars_, ref_vars)
        if real[0] == "ret":
            env_extra = dict(vars_, result=real[1])
            for i, e in enumerate(contract.ensures):
                try:
                    t = ops.truth_term(self.eval_expr(e, env_extra))
                except PyRaise as pr:
                    self.check(f"ensures#{i}-raised[{pr.exc.cls.name}]", False)
                    continue
                self.check(f"ensures#{i}", t)
        else:
            if not contract.ref and contract.raises_only is None:
                self.check(f"unexpected-exception[{real[1].cls.name}: {str(real[1].attrs.get('args'))[:80]}]", False)
            env_extra = dict(vars_, exc=real[1])
            for i, e in enumerate(getattr(contract, "ensures_exc", ())):
                t = ops.truth_term(self.eval_expr(e, env_extra))
                self.check(f"ensures-exc#{i}[{real[1].cls.name}]", t)

    def _exc_name(self, e):
        return e.cls.qualname

    def _compare(self, contract, real, ref, vars_, ref_vars):
        if real[0] != ref[0]:
            what = (f"real {'returned' if real[0] == 'ret' else 'raised ' + real[1].cls.name}, "
                    f"reference {'returned' if ref[0] == 'ret' else 'raised ' + ref[1].cls.name}")
            self.check(f"outcome[{what}]", False)
            return
        if real[0] == "exc":
            if "exc" in contract.compare:
                if contract.exc_compare == "class":
                    same = real[1].cls is ref[1].cls
                else:  # "family": real is a subclass of the reference's class
                    same = real[1].cls.issub(ref[1].cls)
                self.check(f"exc[{real[1].cls.name} vs {ref[1].cls.name}]", same)
            else:
                self.check("exc-any", True)
            return
        for item in contract.compare:
            if item == "result":
                eq = self.interp.eq(real[1], ref[1])
                self.check("result", ops.truth_term(eq) if not isinstance(eq, bool) else eq)
            elif item == "exc":
                continue
            elif item.startswith("stream:"):
                nm = item.split(":", 1)[1]
                a, b = vars_[nm], ref_vars[nm]
                if isinstance(a, IStream) and isinstance(b, IStream):
                    self.check(f"stream-pos[{nm}]", ops.truth_term(ops.py_eq(a.pos, b.pos)))
            elif item.startswith("state:"):
                expr = item.split(":", 1)[1]
                a = self.eval_expr(expr, vars_)
                b = self.eval_expr(expr, ref_vars)
                eq = self.interp.eq(a, b)
                self.check(f"state[{expr}]", ops.truth_term(eq) if not isinstance(eq, bool) else eq)
            else:
                raise OutOfReach(f"unknown compare item {item}")

    def _run_lemma_path(self, lem, binding, cx):
        vars_ = self._make_inputs(lem, binding, cx)
        if not cx.path_feasible():
            raise PathAbort()
        self.entered = True
        self.cur_result.covers += 1
        for i, e in enumerate(lem.ensures):
            t = ops.truth_term(self.eval_expr(e))
            self.check(f"ensures#{i}", t)


def function_fingerprint(interp, qualname):
    """file, line range and AST hash of a function (for the evidence)"""
    parts = qualname.split(".")
    for cut in range(len(parts), 0, -1):
        modname = ".".join(parts[:cut])
        mod = interp.modules.get(modname)
        if mod is not None and getattr(mod, "tree", None) is not None:
            rest = [p for p in parts[cut:] if p != "<locals>"]
            node = _find_def(mod.tree, rest)
            if node is not None:
                src = ast.dump(node, include_attributes=False)
                return {"qualname": qualname, "file": mod.path, "lines": [node.lineno, node.end_lineno],
                        "ast_sha256": hashlib.sha256(src.encode()).hexdigest()[:16]}
    return {"qualname": qualname, "file": None}


def _find_def(tree, names):
    cur = tree
    for nm in names:
        found = None
        for n in ast.walk(cur):
            if isinstance(n, (ast.FunctionDef, ast.ClassDef)) and n.name == nm and n is not cur:
                found = n
                break
        if found is None:
            return None
        cur = found
    return cur if cur is not tree else None
