"""pyvc.rx -- regular expressions over constructed symbolic strings.

The pattern is concrete (it is parsed by CPython's own `re._parser`, so the syntax is exactly Python's); the subject is a
concrete str or a rope built from literal characters (concrete or symbolic code points) and decimal numerals of integer
terms (BN chunks).  The number of digits of every numeral is decided on the path (one path per digit count), then the
subject has a fixed number of elements and a plain backtracking matcher runs over it; comparisons with symbolic elements
fork.  Supported: literals, classes, \\d \\w \\s, '.', groups (named, capturing or not), ? * + {m,n} (greedy), alternation,
IGNORECASE, fullmatch / match.  Anything else is out of reach."""
import re as _re
import z3

try:
    import re._parser as _sre
    import re._constants as _sc
except ImportError:  # pragma: no cover  (python < 3.11)
    import sre_parse as _sre
    import sre_constants as _sc

from .sym import (Rope, BL, BS, BR, BN, BX, T, I, simp, const_of, ctx, OutOfReach, to_rope, mk_rope, numlen, rope_slice)

MAXREPEAT = _sc.MAXREPEAT


class RxPattern:
    def __init__(self, pattern, flags=0):
        if isinstance(flags, _re.RegexFlag):
            flags = int(flags)
        self.pattern, self.flags = pattern, flags
        self.real = _re.compile(pattern, flags)
        self.tree = _sre.parse(pattern, flags)
        self.groupindex = dict(self.real.groupindex)
        self.groups = self.real.groups
        self.ignorecase = bool(self.real.flags & _re.IGNORECASE)

    def __repr__(self):
        return f"<rx {self.pattern!r}>"


class RxMatch:
    """result of a successful match; spans are element positions == character positions (all lengths decided)"""

    def __init__(self, pattern, subject, spans):
        self.re, self.string, self.spans = pattern, subject, spans

    def _index(self, g):
        if isinstance(g, str):
            if g not in self.re.groupindex:
                raise IndexError("no such group")
            return self.re.groupindex[g]
        if not isinstance(g, int) or g < 0 or g > self.re.groups:
            raise IndexError("no such group")
        return g

    def group(self, *gs):
        if not gs:
            gs = (0,)
        out = []
        for g in gs:
            sp = self.spans.get(self._index(g))
            if sp is None:
                out.append(None)
            elif isinstance(self.string, str):
                out.append(self.string[sp[0]:sp[1]])
            else:
                out.append(rope_slice(self.string, sp[0], sp[1]))
        return out[0] if len(out) == 1 else tuple(out)

    def groupdict(self):
        return {name: self.group(name) for name in self.re.groupindex}

    def groups(self):
        return tuple(self.group(i) for i in range(1, self.re.groups + 1))

    def span(self, g=0):
        sp = self.spans.get(self._index(g))
        return (-1, -1) if sp is None else sp

    def start(self, g=0):
        return self.span(g)[0]

    def end(self, g=0):
        return self.span(g)[1]


# ---------------------------------------------------------------------------------------------- subject elements
class _El:
    """one character of the subject: a concrete code point, a symbolic one (term), or digit i of a numeral"""
    __slots__ = ("code", "term", "digit")

    def __init__(self, code=None, term=None, digit=False):
        self.code, self.term, self.digit = code, term, digit


def _elements(subject):
    if isinstance(subject, str):
        return [_El(code=ord(ch)) for ch in subject]
    r = to_rope(subject)
    if r.kind != "str":
        raise OutOfReach("regular expression over bytes")
    c = ctx()
    out = []
    for ch in r.chunks:
        if isinstance(ch, BL):
            for it in ch.items:
                k = it if isinstance(it, int) else const_of(it)
                out.append(_El(code=k) if k is not None else _El(term=T(it)))
        elif isinstance(ch, BN):
            v = ch.val
            k = const_of(v)
            if k is not None:
                out.extend(_El(code=ord(d)) for d in str(k))
                continue
            if not c.is_true(v >= 0):
                raise OutOfReach("numeral of a possibly negative term in a regular expression subject")
            d = None
            for n in range(1, 20):
                if c.branch(v < 10 ** n):
                    d = n
                    break
            if d is None:
                raise OutOfReach("numeral of more than 19 digits")
            c.assume(numlen(v) == d)          # definition of the decimal numeral's length
            for i in range(d):
                digit = simp((v / (10 ** (d - 1 - i))) % 10)
                out.append(_El(term=simp(digit + 48), digit=True))
        elif isinstance(ch, BR):
            n = const_of(ch.count)
            if n is None:
                raise OutOfReach("regular expression over a repetition of symbolic length")
            k = ch.elem if isinstance(ch.elem, int) else const_of(ch.elem)
            out.extend((_El(code=k) if k is not None else _El(term=T(ch.elem))) for _ in range(n))
        elif isinstance(ch, BS):
            n = const_of(simp(ch.hi - ch.lo))
            if n is None:
                raise OutOfReach("regular expression over a text of symbolic length")
            out.extend(_El(term=ch.base.sel(simp(ch.lo + i))) for i in range(n))
        else:
            raise OutOfReach(f"regular expression over chunk {ch!r}")
    return out


def _decide(cond):
    """python bool of a z3 condition (or python bool) -- forks when it is not determined by the path"""
    if isinstance(cond, bool):
        return cond
    cond = simp(cond)
    if z3.is_true(cond):
        return True
    if z3.is_false(cond):
        return False
    return ctx().branch(cond)


def _cat(name, el):
    """membership of an element in a character category -> python bool / z3 condition"""
    if el.code is not None:
        ch = chr(el.code)
        return {"digit": ch.isdigit(), "space": ch.isspace(), "word": ch.isalnum() or ch == "_"}[name]
    if el.digit:
        return {"digit": True, "space": False, "word": True}[name]
    t = el.term
    ascii_only = ctx().is_true(t <= 127)
    if not ascii_only:
        raise OutOfReach("character category of a symbolic non-ASCII character")
    if name == "digit":
        return z3.And(t >= 48, t <= 57)
    if name == "space":
        return z3.Or(z3.And(t >= 9, t <= 13), z3.And(t >= 28, t <= 32))
    return z3.Or(z3.And(t >= 48, t <= 57), z3.And(t >= 65, t <= 90), z3.And(t >= 97, t <= 122), t == 95)


def _eq_code(el, code, ignorecase):
    codes = {code}
    if ignorecase:
        ch = chr(code)
        for v in (ch.lower(), ch.upper()):
            if len(v) == 1:
                codes.add(ord(v))
    if el.code is not None:
        if ignorecase:
            ch = chr(el.code)
            return bool({ord(v) for v in (ch, ch.lower(), ch.upper()) if len(v) == 1} & codes)
        return el.code in codes
    if el.digit and not any(48 <= k <= 57 for k in codes):
        return False
    return z3.Or(*[el.term == k for k in sorted(codes)])


def _in_range(el, lo, hi, ignorecase):
    if el.code is not None:
        if lo <= el.code <= hi:
            return True
        if ignorecase:
            ch = chr(el.code)
            return any(len(v) == 1 and lo <= ord(v) <= hi for v in (ch.lower(), ch.upper()))
        return False
    cond = z3.And(el.term >= lo, el.term <= hi)
    if ignorecase:
        if not ctx().is_true(el.term <= 127):
            raise OutOfReach("case-insensitive range over a symbolic non-ASCII character")
        cond = z3.Or(cond, z3.And(el.term >= 97, el.term <= 122, el.term - 32 >= lo, el.term - 32 <= hi),
                     z3.And(el.term >= 65, el.term <= 90, el.term + 32 >= lo, el.term + 32 <= hi))
    return cond


def _test(op, av, el, ic):
    """does one element match a one-character pattern atom -> python bool / z3 condition"""
    if op is _sc.LITERAL:
        return _eq_code(el, av, ic)
    if op is _sc.NOT_LITERAL:
        r = _eq_code(el, av, ic)
        return (not r) if isinstance(r, bool) else z3.Not(r)
    if op is _sc.ANY:
        r = _eq_code(el, 10, False)
        return (not r) if isinstance(r, bool) else z3.Not(r)
    if op is _sc.IN:
        negate = False
        conds = []
        for iop, iav in av:
            if iop is _sc.NEGATE:
                negate = True
            elif iop is _sc.LITERAL:
                conds.append(_eq_code(el, iav, ic))
            elif iop is _sc.RANGE:
                conds.append(_in_range(el, iav[0], iav[1], ic))
            elif iop is _sc.CATEGORY:
                conds.append(_category(iav, el))
            else:
                raise OutOfReach(f"character class item {iop}")
        if any(c is True for c in conds):
            r = True
        else:
            zs = [c for c in conds if c is not False]
            r = z3.Or(*zs) if zs else False
        if negate:
            return (not r) if isinstance(r, bool) else z3.Not(r)
        return r
    if op is _sc.CATEGORY:
        return _category(av, el)
    raise OutOfReach(f"regular expression atom {op}")


def _category(av, el):
    table = {_sc.CATEGORY_DIGIT: ("digit", False), _sc.CATEGORY_NOT_DIGIT: ("digit", True),
             _sc.CATEGORY_SPACE: ("space", False), _sc.CATEGORY_NOT_SPACE: ("space", True),
             _sc.CATEGORY_WORD: ("word", False), _sc.CATEGORY_NOT_WORD: ("word", True)}
    if av not in table:
        raise OutOfReach(f"character category {av}")
    name, neg = table[av]
    r = _cat(name, el)
    if neg:
        return (not r) if isinstance(r, bool) else z3.Not(r)
    return r


_SINGLE = None


def _match(pat, els, start, full):
    ic = pat.ignorecase
    n = len(els)
    single = (_sc.LITERAL, _sc.NOT_LITERAL, _sc.ANY, _sc.IN, _sc.CATEGORY)

    def seq(items, i, pos, caps, k):
        if i == len(items):
            return k(pos, caps)
        op, av = items[i]
        if op in single:
            if pos < n and _decide(_test(op, av, els[pos], ic)):
                return seq(items, i + 1, pos + 1, caps, k)
            return None
        if op is _sc.SUBPATTERN:
            group, add_flags, del_flags, sub = av
            if add_flags or del_flags:
                raise OutOfReach("inline flags in a regular expression")

            def after(p, c):
                if group is not None:
                    c = dict(c)
                    c[group] = (pos, p)
                return seq(items, i + 1, p, c, k)
            return seq(list(sub), 0, pos, caps, after)
        if op is _sc.BRANCH:
            for alt in av[1]:
                r = seq(list(alt), 0, pos, caps, lambda p, c: seq(items, i + 1, p, c, k))
                if r is not None:
                    return r
            return None
        if op is _sc.MAX_REPEAT:
            lo, hi, sub = av
            sub = list(sub)

            def rep(count, p, c):
                if hi is MAXREPEAT or count < hi:
                    def more(p2, c2):
                        if p2 == p and count >= lo:
                            return None                 # an empty iteration makes no progress
                        return rep(count + 1, p2, c2)
                    r = seq(sub, 0, p, c, more)
                    if r is not None:
                        return r
                if count >= lo:
                    return seq(items, i + 1, p, c, k)
                return None
            return rep(0, pos, caps)
        if op is _sc.AT:
            if av in (_sc.AT_BEGINNING, _sc.AT_BEGINNING_STRING):
                return seq(items, i + 1, pos, caps, k) if pos == 0 else None
            if av in (_sc.AT_END_STRING,):
                return seq(items, i + 1, pos, caps, k) if pos == n else None
            if av is _sc.AT_END:
                if pos == n or (pos == n - 1 and _decide(_eq_code(els[pos], 10, False))):
                    return seq(items, i + 1, pos, caps, k)
                return None
        raise OutOfReach(f"regular expression construct {op}")

    def done(p, c):
        if full and p != n:
            return None
        c = dict(c)
        c[0] = (start, p)
        return c
    return seq(list(pat.tree), 0, start, {}, done)


def compile_(pattern, flags=0):
    if isinstance(pattern, RxPattern):
        return pattern
    if not isinstance(pattern, str):
        raise OutOfReach("symbolic or bytes regular expression pattern")
    if not isinstance(flags, int):
        raise OutOfReach("symbolic regular expression flags")
    return RxPattern(pattern, flags)


def _run(pat, subject, full, search=False):
    if subject is None or isinstance(subject, (int, float, bytes)):
        raise TypeError("expected string or bytes-like object")
    if isinstance(subject, str):
        m = (pat.real.fullmatch if full else (pat.real.search if search else pat.real.match))(subject)
        if m is None:
            return None
        return RxMatch(pat, subject, {g: (m.span(g) if m.span(g) != (-1, -1) else None) for g in range(pat.groups + 1)})
    if not isinstance(subject, Rope):
        raise OutOfReach("regular expression subject of unknown type")
    els = _elements(subject)
    starts = range(len(els) + 1) if search else (0,)
    for st in starts:
        caps = _match(pat, els, st, full)
        if caps is not None:
            return RxMatch(pat, subject, {g: caps.get(g) for g in range(pat.groups + 1)})
    return None


def fullmatch(pat, subject):
    return _run(pat, subject, True)


def match(pat, subject):
    return _run(pat, subject, False)


def search(pat, subject):
    return _run(pat, subject, False, search=True)
