"""pyvc.native -- runs under the interpreter the test-suite uses (/venv/bin/python), imports the REAL package from
$PYCOMM3_REPO and evaluates contracts natively: replay of counter-models, bounded sampling, CPython cross-check.

usage:  python -m pyvc.native replay <file.json>
        python -m pyvc.native sample <contract-id> <binding-json> <seed> <count>
"""
import importlib
import io
import json
import math
import os
import pkgutil
import random
import signal
import sys
import traceback


def _import_all(pkgname):
    pkg = importlib.import_module(pkgname)
    if hasattr(pkg, "__path__"):
        for m in pkgutil.walk_packages(pkg.__path__, pkgname + "."):
            try:
                importlib.import_module(m.name)
            except Exception:
                pass
    return pkg


def load_contracts():
    repo = os.environ.get("PYCOMM3_REPO", "/repo")
    if repo not in sys.path:
        sys.path.insert(0, repo)
    from pyvc import api
    if not api.REGISTRY and not api.LEMMAS:
        import contracts
        for m in pkgutil.iter_modules(contracts.__path__):
            importlib.import_module("contracts." + m.name)
    return api


def implies(a, b):
    return (not a) or bool(b)


def stream_of(buf):
    if isinstance(buf, io.BytesIO):
        return buf
    if isinstance(buf, (bytes, bytearray)):
        return io.BytesIO(bytes(buf))
    raise TypeError("a bytes-like object is required")


def type_name(v):
    return type(v).__name__


_NS = None


def native_ns():
    global _NS
    if _NS is None:
        repo = os.environ.get("PYCOMM3_REPO", "/repo")
        if repo not in sys.path:
            sys.path.insert(0, repo)
        import logging
        logging.disable(logging.CRITICAL)
        pycomm3 = _import_all("pycomm3")
        spec = _import_all("spec")
        _NS = {"pycomm3": pycomm3, "spec": spec, "io": io, "implies": implies, "stream_of": stream_of,
               "type_name": type_name, "same": lambda a, b: veq(a, b)}
    return dict(_NS)


class Hang(Exception):
    pass


def _alarm(signum, frame):
    raise Hang()


def outcome(expr, ns, limit=5):
    signal.signal(signal.SIGALRM, _alarm)
    signal.alarm(limit)
    try:
        return ("ret", eval(expr, ns))
    except Hang:
        return ("hang", None)
    except Exception as e:  # noqa
        return ("exc", e)
    finally:
        signal.alarm(0)


def veq(a, b):
    if isinstance(a, float) and isinstance(b, float):
        if math.isnan(a) and math.isnan(b):
            return True
        return a == b
    if isinstance(a, (bytes, bytearray)) and isinstance(b, (bytes, bytearray)):
        return bytes(a) == bytes(b)
    if type(a) is not type(b) and not (isinstance(a, (int, float)) and isinstance(b, (int, float))):
        if isinstance(a, (list, tuple)) and isinstance(b, (list, tuple)) and type(a) != type(b):
            return False
        if isinstance(a, bool) != isinstance(b, bool):
            return False
    if isinstance(a, (list, tuple)) and isinstance(b, (list, tuple)):
        return len(a) == len(b) and all(veq(x, y) for x, y in zip(a, b))
    if isinstance(a, dict) and isinstance(b, dict):
        return set(a) == set(b) and all(veq(a[k], b[k]) for k in a)
    try:
        return bool(a == b)
    except Exception:
        return False


def show(o):
    kind, v = o
    if kind == "ret":
        r = repr(v)
        return "returned " + (r if len(r) < 300 else r[:300] + "...")
    if kind == "hang":
        return "did not terminate within the time limit"
    return f"raised {type(v).__module__}.{type(v).__name__}: {str(v)[:200]}"


def run_case(c, binding, inputs):
    """-> dict(status=pass|fail|precondition-false|error, ...)"""
    base = native_ns()
    try:
        for k, expr in binding.items():
            base[k] = eval(expr, base)
    except Exception as e:
        return {"status": "error", "why": f"binding: {e!r}"}

    schedule = eval(inputs.get("__schedule__", "[]"))

    def fresh():
        ns = dict(base)
        base["spec"].nondet.reset(schedule)
        for k, expr in inputs.items():
            if k in binding or k.startswith("__"):
                continue
            ns[k] = eval(expr, ns)
        for stmt in getattr(c, "setup", ()):
            exec(stmt, ns)
        return ns
    try:
        # the real run's setup comes last: setup lines may install stand-ins in the package (module globals)
        ns_ref = fresh() if getattr(c, "ref", None) else {}
        ns_real = fresh()
    except Exception as e:
        return {"status": "error", "why": f"inputs: {e!r}"}
    try:
        for r in c.requires:
            if not eval(r, ns_real):
                return {"status": "precondition-false", "why": r}
    except Exception as e:
        return {"status": "precondition-false", "why": f"requires raised {e!r}"}
    is_lemma = not hasattr(c, "call")
    why = []
    rec = {}
    if is_lemma:
        for i, e in enumerate(c.ensures):
            o = outcome(e, ns_real)
            if o[0] != "ret" or not o[1]:
                why.append(f"ensures#{i} `{e}`: {show(o)}")
        return {"status": "fail" if why else "pass", "why": why}
    base["spec"].nondet.reset(schedule)
    real = outcome(c.call, ns_real)
    rec["real"] = show(real)
    if getattr(c, "raises_only", None) is not None and real[0] == "exc":
        allowed = tuple(eval(e, base) for e in c.raises_only)
        if not isinstance(real[1], allowed):
            why.append(f"raises-only: {show(real)} is outside {c.raises_only}")
    if real[0] == "hang":
        why.append("real call did not terminate")
    if c.ref:
        base["spec"].nondet.reset(schedule)
        ref = outcome(c.ref, ns_ref)
        rec["ref"] = show(ref)
        if ref[0] == "hang":
            return {"status": "error", "why": "reference did not terminate", **rec}
        if real[0] != ref[0]:
            why.append(f"outcome: real {show(real)}; reference {show(ref)}")
        elif real[0] == "exc":
            if "exc" in c.compare:
                same = (type(real[1]) is type(ref[1])) if c.exc_compare == "class" else isinstance(real[1], type(ref[1]))
                if not same:
                    why.append(f"exception class: real {show(real)}; reference {show(ref)}")
        elif real[0] == "ret":
            for item in c.compare:
                if item == "result":
                    if not veq(real[1], ref[1]):
                        why.append(f"result: real {show(real)}; reference {show(ref)}")
                elif item.startswith("stream:"):
                    nm = item.split(":", 1)[1]
                    a, b = ns_real.get(nm), ns_ref.get(nm)
                    if isinstance(a, io.BytesIO) and isinstance(b, io.BytesIO) and a.tell() != b.tell():
                        why.append(f"stream position of {nm}: real {a.tell()}, reference {b.tell()}")
                elif item.startswith("state:"):
                    expr = item.split(":", 1)[1]
                    a, b = outcome(expr, ns_real), outcome(expr, ns_ref)
                    if a[0] != "ret" or b[0] != "ret" or not veq(a[1], b[1]):
                        why.append(f"state {expr}: real {show(a)}; reference {show(b)}")
    if real[0] == "ret":
        ns_real["result"] = real[1]
        for i, e in enumerate(c.ensures):
            o = outcome(e, ns_real)
            if o[0] != "ret" or not o[1]:
                why.append(f"ensures#{i} `{e}`: {show(o)}")
    elif real[0] == "exc":
        if not c.ref and getattr(c, "raises_only", None) is None:
            why.append(f"unexpected exception: {show(real)}")
        ns_real["exc"] = real[1]
        for i, e in enumerate(getattr(c, "ensures_exc", ())):
            o = outcome(e, ns_real)
            if o[0] != "ret" or not o[1]:
                why.append(f"ensures-exc#{i} `{e}`: {show(o)}")
    return {"status": "fail" if why else "pass", "why": why, **rec}


def cmd_replay(path):
    api = load_contracts()
    with open(path) as f:
        rep = json.load(f)
    c = api.BY_ID[rep["contract"]]
    if not rep.get("inputs"):
        print(json.dumps({"status": "no-inputs"}))
        return 2
    v = run_case(c, rep["binding"], rep["inputs"])
    print(json.dumps(v, indent=1))
    return 1 if v["status"] == "fail" else 0


def cmd_sample(cid, binding_json, seed, count, known_skip="[]"):
    api = load_contracts()
    c = api.BY_ID[cid]
    binding = json.loads(binding_json)
    rng = random.Random(int(seed))
    fails, evals, skipped, errors, distinct = [], 0, 0, 0, set()
    xcheck = []
    for n in range(int(count)):
        inputs = {k: p.sample(rng) for k, p in c.params.items()}
        if getattr(c, "nondet", False):
            inputs["__schedule__"] = repr([rng.choice([0, 0, 0, 1, 2, 3, 5, 255, 256, 10**6]) if rng.random() < 0.5
                                           else rng.randint(0, 300) for _ in range(rng.randint(0, 60))])
        v = run_case(c, binding, inputs)
        if v["status"] == "precondition-false":
            skipped += 1
            continue
        if v["status"] == "error":
            errors += 1
            continue
        evals += 1
        distinct.add(json.dumps(inputs, sort_keys=True))
        if v["status"] == "fail":
            kn = None
            try:
                base = native_ns()
                for k, e in binding.items():
                    base[k] = eval(e, base)
                for k, e in inputs.items():
                    base[k] = eval(e, base)
                for fid, pred in getattr(c, "known", ()):
                    if eval(pred, base):
                        kn = fid
                        break
            except Exception:
                pass
            if len(fails) < 50:
                fails.append({"inputs": inputs, "why": v["why"], "known": kn})
        if len(xcheck) < 40:
            xcheck.append({"inputs": inputs, "real": v.get("real")})
    print(json.dumps({"evaluations": evals, "distinct": len(distinct), "skipped": skipped, "errors": errors,
                      "failures": fails, "xcheck": xcheck}))
    return 0


def cmd_enum(cid, tier, shard, nshards):
    """exhaustive native enumeration of a contract's input generator (bounded stand-in): real vs reference"""
    api = load_contracts()
    c = api.BY_ID[cid]
    base = native_ns()
    shard, nshards = int(shard), int(nshards)
    fails, n, known_hits = [], 0, {}
    call = compile(c.call, "<call>", "eval")
    ref = compile(c.ref, "<ref>", "eval")
    knowns = [(fid, compile(pred, "<known>", "eval")) for fid, pred in getattr(c, "known", ())]
    for k, values in enumerate(c.enum(tier)):
        if k % nshards != shard:
            continue
        n += 1
        ns = dict(base)
        ns.update(values)
        try:
            a = ("ret", eval(call, ns))
        except Exception as e:
            a = ("exc", e)
        try:
            b = ("ret", eval(ref, dict(base, **values)))
        except Exception as e:
            b = ("exc", e)
        ok = a[0] == b[0] and (veq(a[1], b[1]) if a[0] == "ret" else type(a[1]) is type(b[1]))
        if not ok:
            kn = None
            for fid, pred in knowns:
                try:
                    if eval(pred, dict(base, **values)):
                        kn = fid
                        break
                except Exception:
                    pass
            if kn:
                known_hits[kn] = known_hits.get(kn, 0) + 1
            if len(fails) < 20 and (kn is None or known_hits[kn] <= 2):
                fails.append({"inputs": {kk: repr(vv) for kk, vv in values.items()}, "known": kn,
                              "why": [f"real {show(a)}; reference {show(b)}"]})
    print(json.dumps({"evaluations": n, "failures": fails, "known_hits": known_hits}))
    return 0


def main(argv):
    sys.path.insert(0, os.environ.get("PYVC_VERIF", "/verif"))
    if argv[0] == "replay":
        return cmd_replay(argv[1])
    if argv[0] == "sample":
        return cmd_sample(*argv[1:])
    if argv[0] == "enum":
        return cmd_enum(*argv[1:])
    print(__doc__)
    return 3


if __name__ == "__main__":
    try:
        sys.exit(main(sys.argv[1:]))
    except SystemExit:
        raise
    except Exception:
        traceback.print_exc()
        sys.exit(3)
