"""pyvc.objs -- interpreter-level object model (classes, functions, instances ...)."""
import ast


class PyRaise(Exception):
    """An interpreted Python exception propagating through interpreted code."""

    def __init__(self, exc):
        super().__init__(exc)
        self.exc = exc  # IObj of an exception class


class _Return(Exception):
    def __init__(self, value):
        self.value = value


class _Break(Exception):
    pass


class _Continue(Exception):
    pass


class PathEnd(Exception):
    """Path ends here on purpose (e.g. after an inductive step was checked)."""


class IModule:
    def __init__(self, name, ns=None, path=None):
        self.name, self.ns, self.path = name, (ns if ns is not None else {}), path

    def __repr__(self):
        return f"<imodule {self.name}>"


class IClass:
    def __init__(self, name, bases, ns, meta=None, module=None, qualname=None, native=None):
        self.name = name
        self.bases = tuple(bases)
        self.ns = ns
        self.meta = meta
        self.module = module
        self.qualname = qualname or name
        self.native = native  # for builtin classes: python type(s) used by isinstance
        self.mro = c3(self)

    def __repr__(self):
        return f"<iclass {self.qualname}>"

    def lookup(self, name):
        for k in self.mro:
            if name in k.ns:
                return k.ns[name]
        return MISSING

    def issub(self, other):
        return other in self.mro


def c3(cls):
    seqs = [list(b.mro) for b in cls.bases] + [list(cls.bases)]
    res = [cls]
    while True:
        seqs = [s for s in seqs if s]
        if not seqs:
            return res
        for s in seqs:
            cand = s[0]
            if not any(cand in t[1:] for t in seqs):
                break
        else:
            raise TypeError("inconsistent MRO")
        res.append(cand)
        for s in seqs:
            if s[0] is cand:
                del s[0]


class _Missing:
    def __repr__(self):
        return "MISSING"


MISSING = _Missing()


class IObj:
    def __init__(self, cls, attrs=None):
        self.cls = cls
        self.attrs = attrs if attrs is not None else {}

    def __repr__(self):
        return f"<iobj {self.cls.qualname} {list(self.attrs)[:6]}>"


class IFunc:
    def __init__(self, node, env, module, qualname, defaults, kwdefaults, name=None):
        self.node = node
        self.env = env
        self.module = module
        self.qualname = qualname
        self.defaults = defaults
        self.kwdefaults = kwdefaults
        self.defcls = None
        self.name = name or getattr(node, "name", "<lambda>")
        self.attrs = {}
        self.is_generator = (not isinstance(node, ast.Lambda)) and any(
            isinstance(n, (ast.Yield, ast.YieldFrom)) for n in _walk_fn(node))

    def __repr__(self):
        return f"<ifunc {self.qualname}>"


def _walk_fn(node):
    """walk a function body without descending into nested function/class definitions"""
    todo = list(node.body)
    while todo:
        n = todo.pop()
        yield n
        for ch in ast.iter_child_nodes(n):
            if isinstance(ch, (ast.FunctionDef, ast.AsyncFunctionDef, ast.Lambda, ast.ClassDef)):
                continue
            todo.append(ch)


class IBound:
    def __init__(self, self_, func):
        self.self_, self.func = self_, func

    def __repr__(self):
        return f"<ibound {self.func!r} of {self.self_!r}>"


class IClassMethod:
    def __init__(self, func):
        self.func = func


class IStaticMethod:
    def __init__(self, func):
        self.func = func


class IProperty:
    def __init__(self, fget, fset=None):
        self.fget, self.fset = fget, fset


class ISuper:
    def __init__(self, cls, obj):
        self.cls, self.obj = cls, obj


class INative:
    """a modelled builtin / library callable"""

    def __init__(self, name, fn, raw=False):
        self.name, self.fn, self.raw = name, fn, raw

    def __repr__(self):
        return f"<inative {self.name}>"


class IStub:
    """inert placeholder (typing constructs, loggers)"""

    def __init__(self, name, kind="stub"):
        self.name, self.kind = name, kind

    def __repr__(self):
        return f"<istub {self.name}>"


class IIter:
    """one-shot iterator over an already computed list of items"""

    def __init__(self, items, is_gen=False):
        self.items = list(items)
        self.pos = 0
        self.is_gen = is_gen

    def next(self):
        if self.pos >= len(self.items):
            raise StopIteration()
        v = self.items[self.pos]
        self.pos += 1
        return v

    def rest(self):
        r = self.items[self.pos:]
        self.pos = len(self.items)
        return r


class IGen:
    """generator object of an interpreted generator function (restricted subset)"""

    def __init__(self, pygen, env):
        self.pygen, self.env = pygen, env
        self.is_gen = True


class IByteArray:
    def __init__(self, value):
        self.value = value  # bytes or Rope(kind bytes)

    def __repr__(self):
        return f"<ibytearray {self.value!r}>"


class IStream:
    """io.BytesIO model"""

    def __init__(self, buf):
        self.buf = buf
        self.pos = 0

    def __repr__(self):
        return f"<istream pos={self.pos} buf={self.buf!r}>"


class Env:
    __slots__ = ("vars", "parent", "glob", "is_class", "func")

    def __init__(self, vars=None, parent=None, glob=None, is_class=False, func=None):
        self.vars = vars if vars is not None else {}
        self.parent = parent
        self.glob = glob if glob is not None else (parent.glob if parent else None)
        self.is_class = is_class
        self.func = func

    def lookup(self, name):
        e = self
        first = True
        while e is not None:
            if (first or not e.is_class) and name in e.vars:
                return e.vars[name]
            first = False
            e = e.parent
        if self.glob is not None and name in self.glob:
            return self.glob[name]
        return MISSING

    def function_env(self):
        e = self
        while e is not None and e.is_class:
            e = e.parent
        return e
