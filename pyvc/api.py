"""pyvc.api -- sidecar contract language.  Importable without z3 (native replay imports it too).

A contract relates a function of /repo to a *reference function* of /verif/spec (written from the
property statement / wire specification, never from the code):

    contract(id=..., func=<qualname of the function whose body is verified>,
             call="cls.encode(value)", bind={"cls": [<python exprs>]}, params={"value": P.int()},
             requires=[...], ref="spec.cip_codec.encode(cls.__name__, value)",
             compare=["result", "exc"], props=[...])

meaning: for every instance of `bind`, every value of `params` satisfying `requires`, calling the real
function behaves as the reference: same result, same exception class, same stream position / mutated
state for the listed items.  At call sites inside *other* verified functions the callee is replaced by
this reference (modular verification: the caller never sees the callee's body).
"""

REGISTRY = []
LEMMAS = []
BY_ID = {}


class Contract:
    def __init__(self, id, func, call, params=None, bind=None, requires=(), ref=None, compare=("result", "exc"),
                 props=(), applies=None, assumed=False, known=(), note="", setup=(), ensures=(), raises_only=None,
                 loops=None, inline=(), timeout=None, ghost=None, max_paths=None, use_contracts=True, exc_compare="class",
                 replay=True, bounded=None, ensures_exc=(), nondet=False, no_entry_check=False, callsite=None, tier="quick", callsite_ref=None, callsite_ensures=(), enum=None):
        self.id = id
        self.func = func
        self.call = call
        self.params = params or {}
        self.bind = bind or {}
        self.requires = list(requires)
        self.ref = ref
        self.compare = list(compare)
        self.props = list(props)
        self.applies = applies          # predicate over {param: interp value} for call-site substitution
        self.assumed = assumed          # environment contract: never verified, only applied
        self.known = list(known)        # [(finding_id, predicate_expr)]
        self.note = note
        self.setup = list(setup)        # statements run (both worlds) before the call, e.g. building objects
        self.ensures = list(ensures)    # extra postconditions over result / params (python exprs)
        self.raises_only = raises_only  # tuple of exception class exprs allowed to escape (exception freedom)
        self.loops = loops or {}        # {ordinal: {"invariant": [...], "decreases": expr, "havoc": {...}}}
        self.inline = set(inline)       # callee qualnames to interpret instead of replacing by contract
        self.timeout = timeout
        self.ghost = ghost or {}
        self.max_paths = max_paths
        self.use_contracts = use_contracts
        self.exc_compare = exc_compare
        self.replay = replay
        self.bounded = bounded
        self.nondet = nondet
        self.no_entry_check = no_entry_check
        self.callsite_ref = callsite_ref  # what callers see instead of `ref` (usually an abstraction of it)
        self.callsite_ensures = list(callsite_ensures)  # proved for the callee (part of ensures) and assumed by callers
        self.ensures = self.ensures + [e for e in self.callsite_ensures if e not in self.ensures]
        self.enum = enum              # callable(tier) -> iterable of {param: value}: exhaustive native enumeration (bounded stand-in)
        self.tier = tier              # "thorough": only verified in the thorough tier
        # substitution at call sites: explicit True/False, else only contracts that say for which callee arguments they
        # hold (bind / applies) are substituted
        self.callsite = callsite if callsite is not None else bool(self.bind or self.applies)
        self.ensures_exc = list(ensures_exc)  # postconditions on exceptional exit (over params and `exc`)
        REGISTRY.append(self)
        if id in BY_ID:
            raise ValueError(f"duplicate contract id {id}")
        BY_ID[id] = self

    def instances(self):
        """all bindings (dict name -> expr string), cartesian product of bind lists"""
        names = list(self.bind)
        out = [{}]
        for n in names:
            vals = self.bind[n]
            if callable(vals):
                vals = vals()
            out = [dict(b, **{n: v}) for b in out for v in vals]
        return out


def contract(**kw):
    return Contract(**kw)


class Lemma:
    """An obligation over spec functions only (no repository code): `call` is evaluated symbolically and
    every `ensures` clause must hold."""

    def __init__(self, id, params, ensures, requires=(), bind=None, props=(), setup=(), note="", max_paths=None):
        self.id, self.params, self.ensures, self.requires = id, params, list(ensures), list(requires)
        self.bind = bind or {}
        self.props = list(props)
        self.setup = list(setup)
        self.note = note
        self.max_paths = max_paths
        LEMMAS.append(self)
        BY_ID[id] = self

    instances = Contract.instances


def lemma(**kw):
    return Lemma(**kw)


# ----------------------------------------------------------------------------
# parameter generators
# ----------------------------------------------------------------------------
class P:
    """symbolic parameter description; make(name) runs inside a path context"""

    def make(self, name):
        raise NotImplementedError

    def concretize(self, value, model):
        """python *expression string* for the native value under a z3 model"""
        raise NotImplementedError

    # constructors
    @staticmethod
    def int(lo=None, hi=None):
        return _PInt(lo, hi)

    @staticmethod
    def bool():
        return _PBool()

    @staticmethod
    def bytes(len=None, minlen=0, maxlen=None):
        return _PBytes(len, minlen, maxlen)

    @staticmethod
    def str(minlen=0, maxlen=None, free_of="", maxcp=0x10FFFF, props=()):
        return _PStr(minlen, maxlen, free_of, maxcp, props)

    @staticmethod
    def numeral(lo=0, hi=None):
        return _PNumeral(lo, hi)

    @staticmethod
    def sampled(inner, sampler):
        """`inner` for the proof (symbolic value, counter-model concretisation), `sampler(rng) -> value` for the bounded native
        runs: lets the stand-in draw values that satisfy a structural precondition instead of being skipped"""
        return _PSampled(inner, sampler)

    @staticmethod
    def casing(text):
        """every letter-casing of `text` (each cased character independently upper or lower)"""
        return _PCasing(text)

    @staticmethod
    def any():
        return _PAny()

    @staticmethod
    def float():
        return _PFloat()

    @staticmethod
    def const(expr):
        return _PConst(expr)

    @staticmethod
    def oneof(*alts):
        return _POneOf(alts)

    @staticmethod
    def list(elem, n):
        return _PList(elem, n)

    @staticmethod
    def tuple(*elems):
        return _PTuple(elems)

    @staticmethod
    def dict(**items):
        return _PDict(items)

    @staticmethod
    def obj(ctor, *args, **kwargs):
        return _PObj(ctor, args, kwargs)

    @staticmethod
    def concat(*parts):
        return _PConcat(parts)

    @staticmethod
    def stream(buf):
        return _PStream(buf)


def _lift(x):
    return x if isinstance(x, P) else _PLit(x)


class _PLit(P):
    def sample(self, rng):
        return repr(self.v)

    def __init__(self, v):
        self.v = v

    def make(self, name):
        return self.v

    def concretize(self, value, model):
        return repr(self.v)


class _PInt(P):
    def sample(self, rng):
        lo = self.lo if self.lo is not None else -(1 << 70)
        hi = self.hi if self.hi is not None else (1 << 70)
        pool = [0, 1, -1, 2, 127, 128, 255, 256, 32767, 32768, 65535, 65536, 2**31 - 1, 2**31, 2**32 - 1, 2**32,
                2**63 - 1, 2**63, 2**64 - 1, 2**64, -128, -129, -32768, -32769, -2**31, -2**31 - 1, -2**63, -2**63 - 1]
        pool = [x for x in pool if lo <= x <= hi] or [lo]
        r = rng.random()
        if r < 0.5:
            return repr(rng.choice(pool))
        if r < 0.75:
            return repr(max(lo, min(hi, rng.choice(pool) + rng.randint(-3, 3))))
        bits = rng.choice([8, 16, 32, 64, 70])
        v = rng.getrandbits(bits) * rng.choice([1, -1])
        return repr(max(lo, min(hi, v)))

    def __init__(self, lo, hi):
        self.lo, self.hi = lo, hi

    def make(self, name):
        from .sym import ctx, SInt
        import z3
        c = ctx()
        t = z3.Int(c.fresh_name(name))
        if self.lo is not None:
            c.assume(t >= self.lo)
        if self.hi is not None:
            c.assume(t <= self.hi)
        return SInt(t)

    def concretize(self, value, model):
        return repr(_ev_int(value, model))


class _PBool(P):
    def sample(self, rng):
        return repr(rng.random() < 0.5)

    def make(self, name):
        from .sym import ctx, SBool
        import z3
        return SBool(z3.Bool(ctx().fresh_name(name)))

    def concretize(self, value, model):
        import z3
        from .sym import B
        return repr(z3.is_true(model.eval(B(value), model_completion=True)))


class _PBytes(P):
    def sample(self, rng):
        if self.len is not None:
            n = self.len
        else:
            hi = self.maxlen if self.maxlen is not None else max(self.minlen + 12, 12)
            n = rng.choice([self.minlen, self.minlen, min(hi, self.minlen + 1), rng.randint(self.minlen, hi)])
        mode = rng.random()
        if mode < 0.2:
            return repr(bytes(n))
        if mode < 0.4:
            return repr(b"\xff" * n)
        return repr(bytes(rng.getrandbits(8) for _ in range(n)))

    def __init__(self, len, minlen, maxlen):
        self.len, self.minlen, self.maxlen = len, minlen, maxlen

    def make(self, name):
        from .sym import ctx, Base, BS, mk_rope, I
        import z3
        c = ctx()
        nm = c.fresh_name(name)
        if self.len is not None:
            ln = I(self.len)
        else:
            ln = z3.Int(nm + "_len")
            c.assume(ln >= self.minlen)
            if self.maxlen is not None:
                c.assume(ln <= self.maxlen)
            c.soft.append(ln <= max(self.minlen, 6))
        b = Base(nm, "bytes", ln)
        return mk_rope("bytes", [BS(b, 0, ln)])

    def concretize(self, value, model):
        return repr(bytes(_ev_seq(value, model)))


class _PStr(P):
    def sample(self, rng):
        hi = self.maxlen if self.maxlen is not None else max(self.minlen + 8, 8)
        n = rng.choice([self.minlen, min(hi, self.minlen + 1), rng.randint(self.minlen, hi)])
        out = []
        alphabet = [c for c in "abcXYZ_09 .:[]{},/\\-é\xff\u0100\u20ac\U0001f600" if ord(c) <= self.maxcp and c not in self.free_of]
        if "digits" in self.props:
            alphabet = list("0123456789")
        if "lower" in self.props:
            alphabet = [c for c in alphabet if c.lower() == c]
        for k in range(n):
            ch = rng.choice(alphabet)
            if "nondigit" in self.props and k == 0 and ch.isdigit():
                ch = "a"
            out.append(ch)
        return repr("".join(out))

    def __init__(self, minlen, maxlen, free_of, maxcp, props):
        self.minlen, self.maxlen, self.free_of, self.maxcp, self.props = minlen, maxlen, free_of, maxcp, props

    def make(self, name):
        from .sym import ctx, Base, BS, mk_rope
        import z3
        c = ctx()
        nm = c.fresh_name(name)
        ln = z3.Int(nm + "_len")
        c.assume(ln >= self.minlen)
        if self.maxlen is not None:
            c.assume(ln <= self.maxlen)
        c.soft.append(ln <= max(self.minlen, 6))
        b = Base(nm, "str", ln, maxel=self.maxcp, free_of=frozenset(ord(ch) for ch in self.free_of),
                 nonempty=self.minlen > 0, props=frozenset(self.props))
        return mk_rope("str", [BS(b, 0, ln)])

    def concretize(self, value, model):
        cps = _ev_seq(value, model)
        out = []
        for k, cp in enumerate(cps):
            ch = chr(cp)
            if "nondigit" in self.props and k == 0 and ch.isdigit():
                ch = "a"
            if "lower" in self.props:
                ch = ch.lower()
            out.append(ch)
        return repr("".join(out))


class _PSampled(P):
    def __init__(self, inner, sampler):
        self.inner, self.sampler = inner, sampler

    def make(self, name):
        return self.inner.make(name)

    def concretize(self, value, model):
        return self.inner.concretize(value, model)

    def sample(self, rng):
        return repr(self.sampler(rng))


class _PNumeral(P):
    def sample(self, rng):
        hi = self.hi if self.hi is not None else 10**6
        pool = [x for x in (0, 1, 9, 10, 15, 16, 99, 100, 255, 256, 999, 1000, 4095, 4096, 65535, 65536, hi, self.lo)
                if self.lo <= x <= hi]
        return repr(str(rng.choice(pool + [rng.randint(self.lo, hi)])))

    def __init__(self, lo, hi):
        self.lo, self.hi = lo, hi

    def make(self, name):
        from .sym import ctx, BN, mk_rope
        import z3
        c = ctx()
        t = z3.Int(c.fresh_name(name))
        c.assume(t >= self.lo)
        if self.hi is not None:
            c.assume(t <= self.hi)
        return mk_rope("str", [BN(t)])

    def concretize(self, value, model):
        return repr("".join(chr(c) for c in _ev_seq(value, model)))


class _PCasing(P):
    def __init__(self, text):
        self.text = text

    def make(self, name):
        from .sym import ctx, BL, mk_rope
        import z3
        c = ctx()
        items = []
        for i, ch in enumerate(self.text):
            lo, up = ch.lower(), ch.upper()
            if lo != up and len(lo) == 1 and len(up) == 1:
                t = z3.Int(c.fresh_name(f"{name}_c{i}"))
                c.assume(z3.Or(t == ord(lo), t == ord(up)))
                items.append(t)
            else:
                items.append(ord(ch))
        return mk_rope("str", [BL(items)])

    def concretize(self, value, model):
        return repr("".join(chr(c) for c in _ev_seq(value, model)))

    def sample(self, rng):
        return repr("".join(rng.choice([ch.lower(), ch.upper()]) for ch in self.text))


class _PAny(P):
    def sample(self, rng):
        return "object()"

    def make(self, name):
        from .sym import ctx, SAny
        return SAny(ctx().fresh_name(name))

    def concretize(self, value, model):
        return "object()"


class _PFloat(P):
    def sample(self, rng):
        import struct
        pool = ["0.0", "-0.0", "1.5", "-2.25", "3.4028234663852886e+38", "1e-45", "1e39", "1.7976931348623157e308",
                "float('inf')", "float('-inf')", "float('nan')", "0.1", "1e-320", "16777217.0"]
        if rng.random() < 0.6:
            return rng.choice(pool)
        v = struct.unpack("<d", bytes(rng.getrandbits(8) for _ in range(8)))[0]
        return repr(v) if v == v and abs(v) != float("inf") else "float('nan')"

    def make(self, name):
        from .sym import ctx, SFloat
        from .lib import F64
        import z3
        return SFloat(z3.Const(ctx().fresh_name(name), F64))

    def concretize(self, value, model):
        return "1.5"


class _PConst(P):
    def sample(self, rng):
        return self.expr

    def __init__(self, expr):
        self.expr = expr

    def make(self, name):
        from .verify import CURRENT
        return CURRENT.eval_expr(self.expr)

    def concretize(self, value, model):
        return self.expr


class _POneOf(P):
    def sample(self, rng):
        return rng.choice(self.alts).sample(rng)

    def __init__(self, alts):
        self.alts = [_lift(a) for a in alts]

    def make(self, name):
        from .sym import ctx
        k = ctx().choose(len(self.alts), name + "_alt")
        v = self.alts[k].make(name)
        self._last = getattr(self, "_last", {})
        ctx().ghost[("oneof", id(self), name)] = k
        return _Tagged(v, k)

    def concretize(self, value, model):
        return self.alts[value.k].concretize(value.v, model)


class _Tagged:
    """value of a oneof together with the alternative index (unwrapped by the driver)"""

    def __init__(self, v, k):
        self.v, self.k = v, k


class _PList(P):
    def sample(self, rng):
        return "[" + ", ".join(self.elem.sample(rng) for _ in range(self.n)) + "]"

    def __init__(self, elem, n):
        self.elem, self.n = _lift(elem), n

    def make(self, name):
        return [self.elem.make(f"{name}_{i}") for i in range(self.n)]

    def concretize(self, value, model):
        return "[" + ", ".join(self.elem.concretize(_tag_or(v), model) for v in value) + "]"


class _PTuple(P):
    def sample(self, rng):
        return "(" + "".join(e.sample(rng) + ", " for e in self.elems) + ")"

    def __init__(self, elems):
        self.elems = [_lift(e) for e in elems]

    def make(self, name):
        return tuple(e.make(f"{name}_{i}") for i, e in enumerate(self.elems))

    def concretize(self, value, model):
        return "(" + "".join(e.concretize(_tag_or(v), model) + ", " for e, v in zip(self.elems, value)) + ")"


class _PDict(P):
    def sample(self, rng):
        return "{" + ", ".join(f"{k!r}: {p.sample(rng)}" for k, p in self.items.items()) + "}"

    def __init__(self, items):
        self.items = {k: _lift(v) for k, v in items.items()}

    def make(self, name):
        return {k: p.make(f"{name}_{k}") for k, p in self.items.items()}

    def concretize(self, value, model):
        return "{" + ", ".join(f"{k!r}: {p.concretize(_tag_or(value[k]), model)}" for k, p in self.items.items()) + "}"


class _PObj(P):
    def sample(self, rng):
        a = [p.sample(rng) for p in self.args]
        k = [f"{n}={p.sample(rng)}" for n, p in self.kwargs.items()]
        return f"{self.ctor}({', '.join(a + k)})"

    def __init__(self, ctor, args, kwargs):
        self.ctor = ctor
        self.args = [_lift(a) for a in args]
        self.kwargs = {k: _lift(v) for k, v in kwargs.items()}

    def make(self, name):
        from .verify import CURRENT
        raw_a = [a.make(f"{name}_a{i}") for i, a in enumerate(self.args)]
        raw_k = {k: p.make(f"{name}_{k}") for k, p in self.kwargs.items()}
        ctor = CURRENT.eval_expr(self.ctor)
        obj = CURRENT.interp.call(ctor, [_untag(a) for a in raw_a], {k: _untag(v) for k, v in raw_k.items()})
        return _Made(obj, raw_a, raw_k)

    def concretize(self, value, model):
        a = [p.concretize(_tag_or(v), model) for p, v in zip(self.args, value.raw_a)]
        k = [f"{n}={p.concretize(_tag_or(value.raw_k[n]), model)}" for n, p in self.kwargs.items()]
        return f"{self.ctor}({', '.join(a + k)})"


class _Made:
    def __init__(self, obj, raw_a, raw_k):
        self.obj, self.raw_a, self.raw_k = obj, raw_a, raw_k


class _PConcat(P):
    def sample(self, rng):
        return "(" + " + ".join(p.sample(rng) for p in self.parts) + ")"

    """concatenation of str / bytes parts"""

    def __init__(self, parts):
        self.parts = [_lift(p) for p in parts]

    def make(self, name):
        from .sym import rope_concat
        raws = [p.make(f"{name}_p{i}") for i, p in enumerate(self.parts)]
        out = None
        for r in raws:
            v = _untag(r)
            out = v if out is None else (out + v if not _is_sym(out) and not _is_sym(v) else rope_concat(out, v))
        return _Made(out, raws, {})

    def concretize(self, value, model):
        return "(" + " + ".join(p.concretize(_tag_or(v), model) for p, v in zip(self.parts, value.raw_a)) + ")"


class _PStream(P):
    def sample(self, rng):
        return f"io.BytesIO({self.buf.sample(rng)})"

    def __init__(self, buf):
        self.buf = _lift(buf)

    def make(self, name):
        from .objs import IStream
        raw = self.buf.make(name)
        return _Made(IStream(_untag(raw)), [raw], {})

    def concretize(self, value, model):
        return f"io.BytesIO({self.buf.concretize(_tag_or(value.raw_a[0]), model)})"


def _is_sym(v):
    from .sym import Sym
    return isinstance(v, Sym)


def _untag(v):
    if isinstance(v, _Tagged):
        return _untag(v.v)
    if isinstance(v, _Made):
        return v.obj
    if isinstance(v, list):
        return [_untag(x) for x in v]
    if isinstance(v, tuple):
        return tuple(_untag(x) for x in v)
    if isinstance(v, dict):
        return {k: _untag(x) for k, x in v.items()}
    return v


def _tag_or(v):
    return v


def _ev_int(value, model):
    from .sym import T
    if isinstance(value, int):
        return value
    r = model.eval(T(value), model_completion=True)
    return r.as_long()


def _ev_seq(value, model):
    """elements of a rope value under the model"""
    from .sym import to_rope, rope_len_term, rope_index_term, I
    if isinstance(value, (bytes, str)):
        return list(value) if isinstance(value, bytes) else [ord(c) for c in value]
    r = to_rope(value)
    n = model.eval(rope_len_term(r), model_completion=True).as_long()
    n = max(0, min(n, 100000))
    out = []
    from .sym import BN
    # numerals: render from their value
    res = []
    for ch in r.chunks:
        ln = model.eval(ch.length(), model_completion=True).as_long()
        if isinstance(ch, BN):
            v = model.eval(ch.val, model_completion=True).as_long()
            res.extend(ord(c) for c in str(v))
            continue
        from .sym import chunk_elem
        for i in range(max(0, min(ln, 100000))):
            e = model.eval(chunk_elem(ch, I(i)), model_completion=True)
            try:
                res.append(e.as_long())
            except Exception:
                res.append(0)
    return res
