"""pyvc.lib -- builtins and library models (the trusted axioms of DESIGN 1.3(6) / 2.3)."""
import ast
import struct as _struct

import z3

from . import ops, strs
from .objs import (PyRaise, IModule, IClass, IObj, IFunc, IBound, IClassMethod, IStaticMethod, IProperty, ISuper,
                   INative, IStub, IIter, IGen, IByteArray, IStream, Env, MISSING, _Return)
from .sym import (Sym, SInt, SBool, SAny, SFloat, Rope, BL, BS, BR, BN, BX, T, B, I, mk_int, mk_bool, simp, const_of,
                  ctx, OutOfReach, to_rope, mk_rope, rope_len_term, rope_len, rope_concrete, rope_concat, rope_slice,
                  rope_index_term, _rope_cut, _clamp_bounds, is_intlike)

AXIOMS_USED = set()


def axiom(name):
    AXIOMS_USED.add(name)


# ----------------------------------------------------------------------------
# builtin classes / exceptions
# ----------------------------------------------------------------------------
OBJECT = IClass("object", [], {}, native=object)
TYPE = IClass("type", [OBJECT], {}, native=type)
EXC = {}


def _mkexc(name, base):
    cls = IClass(name, [EXC[base]] if base else [OBJECT], {"__module__": "builtins"})
    EXC[name] = cls
    return cls


for _n, _b in [("BaseException", None), ("Exception", "BaseException"), ("TypeError", "Exception"),
               ("ValueError", "Exception"), ("LookupError", "Exception"), ("KeyError", "LookupError"),
               ("IndexError", "LookupError"), ("AttributeError", "Exception"), ("ArithmeticError", "Exception"),
               ("ZeroDivisionError", "ArithmeticError"), ("OverflowError", "ArithmeticError"),
               ("StopIteration", "Exception"), ("RuntimeError", "Exception"),
               ("NotImplementedError", "RuntimeError"), ("RecursionError", "RuntimeError"),
               ("OSError", "Exception"), ("TimeoutError", "OSError"), ("ConnectionError", "OSError"),
               ("AssertionError", "Exception"), ("NameError", "Exception"), ("UnicodeError", "ValueError"),
               ("UnicodeEncodeError", "UnicodeError"), ("UnicodeDecodeError", "UnicodeError"),
               ("struct.error", "Exception"), ("ipaddress.AddressValueError", "ValueError"),
               ("KeyboardInterrupt", "BaseException"), ("GeneratorExit", "BaseException"),
               ("SystemExit", "BaseException"), ("MemoryError", "Exception"), ("ImportError", "Exception"),
               ("EOFError", "Exception"), ("BufferError", "Exception")]:
    _mkexc(_n, _b)
EXC["error"] = EXC["struct.error"]
EXC["AddressValueError"] = EXC["ipaddress.AddressValueError"]
EXC["IOError"] = EXC["OSError"]
EXC["socket.error"] = EXC["OSError"]
EXC["socket.timeout"] = EXC["TimeoutError"]


def _builtin_type(name, pred):
    """a builtin type usable in isinstance(); pred(value) -> bool/None(unknown)"""
    c = IClass(name, [OBJECT], {})
    c.pred = pred
    return c


def _is_int(v):
    return isinstance(v, (int, SInt, SBool))


def _is_bool(v):
    return isinstance(v, (bool, SBool))


BT = {
    "int": _builtin_type("int", _is_int),
    "bool": _builtin_type("bool", _is_bool),
    "float": _builtin_type("float", lambda v: isinstance(v, (float, SFloat))),
    "str": _builtin_type("str", ops.is_str),
    "bytes": _builtin_type("bytes", ops.is_bytes),
    "bytearray": _builtin_type("bytearray", lambda v: isinstance(v, IByteArray)),
    "list": _builtin_type("list", lambda v: isinstance(v, list)),
    "tuple": _builtin_type("tuple", lambda v: isinstance(v, tuple) or (isinstance(v, IObj) and v.cls.ns.get("_fields_nt") is not None)),
    "dict": _builtin_type("dict", lambda v: isinstance(v, dict)),
    "set": _builtin_type("set", lambda v: isinstance(v, set)),
    "frozenset": _builtin_type("frozenset", lambda v: isinstance(v, frozenset)),
    "classmethod": _builtin_type("classmethod", lambda v: isinstance(v, IClassMethod)),
    "staticmethod": _builtin_type("staticmethod", lambda v: isinstance(v, IStaticMethod)),
    "property": _builtin_type("property", lambda v: isinstance(v, IProperty)),
    "BytesIO": _builtin_type("BytesIO", lambda v: isinstance(v, IStream)),
    "Generator": _builtin_type("Generator", lambda v: isinstance(v, IGen) or (isinstance(v, IIter) and v.is_gen)),
    "Sequence": _builtin_type("Sequence", lambda v: isinstance(v, (list, tuple, str, bytes, range)) or isinstance(v, Rope) or
                              (isinstance(v, IObj) and v.cls.ns.get("_fields_nt") is not None)),
    "range": _builtin_type("range", lambda v: isinstance(v, range)),
    "NoneType": _builtin_type("NoneType", lambda v: v is None),
}
BT["type"] = TYPE
TYPE.pred = lambda v: isinstance(v, IClass)
BT["object"] = OBJECT
OBJECT.pred = lambda v: True


def py_isinstance(interp, v, t):
    if isinstance(t, tuple):
        res = False
        for x in t:
            r = py_isinstance(interp, v, x)
            if r is True:
                return True
            if r is not False:
                res = r if res is False else mk_bool(z3.Or(B(res), B(r)))
        return res
    if isinstance(t, IStub):
        raise OutOfReach(f"isinstance against {t.name}")
    if not isinstance(t, IClass):
        raise TypeError("isinstance() arg 2 must be a type, a tuple of types, or a union")
    if isinstance(v, SAny):
        return t is OBJECT
    pred = getattr(t, "pred", None)
    if pred is not None:
        return bool(pred(v))
    if isinstance(v, IObj):
        return v.cls.issub(t)
    if isinstance(v, IClass):
        return v.meta is not None and v.meta.issub(t)
    return False


def py_issubclass(interp, c, t):
    if isinstance(t, tuple):
        return any(py_issubclass(interp, c, x) for x in t)
    if isinstance(c, SAny):
        try:
            return ops.any_op("issubclass")
        except TypeError:
            raise
    if not isinstance(c, IClass):
        raise TypeError("issubclass() arg 1 must be a class")
    if not isinstance(t, IClass):
        raise TypeError("issubclass() arg 2 must be a class")
    return c.issub(t)


# ----------------------------------------------------------------------------
# formatting
# ----------------------------------------------------------------------------
def py_str(interp, v):
    if isinstance(v, str):
        return v
    if isinstance(v, Rope):
        if v.kind == "str":
            return v
        return mk_rope("str", [BX(("repr", id(v)), ctx().fresh_int("reprlen"))])
    if isinstance(v, SInt):
        c = ctx()
        if c.is_true(v.t >= 0):
            return mk_rope("str", [BN(v.t)])
        if c.branch(v.t >= 0):
            return mk_rope("str", [BN(v.t)])
        return mk_rope("str", [BL([45]), BN(simp(-v.t))])
    if isinstance(v, SBool):
        return "True" if ctx().branch(v.t) else "False"
    if isinstance(v, IObj):
        if v.cls.issub(EXC["BaseException"]):
            f = v.cls.lookup("__str__")
            if f is not MISSING and isinstance(f, IFunc):
                return interp.call(f, [v], {})
            args = v.attrs.get("args", ())
            if len(args) == 0:
                return ""
            if len(args) == 1:
                if v.cls.issub(EXC["KeyError"]):
                    return py_repr(interp, args[0])
                return py_str(interp, args[0])
            return py_repr(interp, tuple(args))
        f = v.cls.lookup("__str__")
        if f is MISSING:
            f = v.cls.lookup("__repr__")
        if f is not MISSING and isinstance(f, IFunc):
            return interp.call(f, [v], {})
        return f"<{v.cls.name} object>"
    if isinstance(v, IClass):
        if v.meta is not None:
            f = v.meta.lookup("__str__")
            if f is MISSING:
                f = v.meta.lookup("__repr__")
            if f is not MISSING and isinstance(f, IFunc):
                return interp.call(f, [v], {})
        return f"<class '{v.qualname}'>"
    if isinstance(v, (SAny, SFloat)):
        c = ctx()
        ln = c.fresh_int("strlen")
        c.assume(ln >= 0)
        return mk_rope("str", [BX(("str", c.fresh_name("s")), ln)])
    if isinstance(v, (list, tuple, dict, set)) and _has_sym(v):
        return py_repr(interp, v)
    if isinstance(v, (IFunc, IBound, INative, IModule, IStub, IStream, IByteArray, IIter, IGen)):
        return f"<{type(v).__name__}>"
    return str(v)


def _has_sym(v):
    if isinstance(v, (Sym, IObj, IClass, IByteArray)):
        return True
    if isinstance(v, (list, tuple, set, frozenset)):
        return any(_has_sym(x) for x in v)
    if isinstance(v, dict):
        return any(_has_sym(x) for x in v.values()) or any(_has_sym(x) for x in v.keys())
    return False


def py_repr(interp, v):
    if isinstance(v, IObj):
        f = v.cls.lookup("__repr__")
        if f is not MISSING and isinstance(f, IFunc):
            try:
                return interp.call(f, [v], {})
            except OutOfReach:
                pass
        return f"<{v.cls.name} object>"
    if _has_sym(v) or isinstance(v, (IClass, IFunc, IBound)):
        if isinstance(v, SInt):
            return py_str(interp, v)
        c = ctx_or_none()
        if c is None:
            return "<symbolic>"
        ln = c.fresh_int("reprlen")
        c.assume(ln >= 1)
        return mk_rope("str", [BX(("repr", c.fresh_name("r")), ln)])
    if isinstance(v, (IModule, IStub, IStream, IIter, IGen, INative)):
        return f"<{type(v).__name__}>"
    return repr(v)


def ctx_or_none():
    from .sym import _CTX
    return _CTX[0]


def format_value(interp, val, conv, spec):
    if conv == ord("r"):
        val = py_repr(interp, val)
    elif conv == ord("s"):
        val = py_str(interp, val)
    elif conv == ord("a"):
        val = py_repr(interp, val)
    if isinstance(spec, Rope):
        raise OutOfReach("symbolic format spec")
    if not _has_sym(val) and not isinstance(val, (IClass, IFunc, IBound, IModule)):
        if spec:
            return format(val, spec)
        return py_str(interp, val)
    if not spec:
        return py_str(interp, val)
    if isinstance(val, SInt):
        axiom(f"format(int, {spec!r}) is a non-empty string determined by (value, spec)")
        c = ctx()
        # minimal width from the spec (digits in it), length is at least that
        import re
        m = re.fullmatch(r"(?:(.)?([<>=^]))?(0)?(\d+)?([xXdbo])?", spec)
        if not m:
            raise OutOfReach(f"format spec {spec!r} on symbolic int")
        width = int(m.group(4)) if m.group(4) else 1
        ln = _fmtlen(I(hash(spec) % 100003), val.t)
        key = ("fmtlen", spec, val.t.get_id())
        if key not in c.ghost:
            c.ghost[key] = True
            c.assume(ln >= max(width, 1))
        return mk_rope("str", [BX(("fmt", spec, simp(val.t).sexpr()), ln, {"free_of": frozenset(), "term": val.t, "spec": spec})])
    if isinstance(val, Rope):
        raise OutOfReach(f"format spec {spec!r} on symbolic string")
    if val is None or isinstance(val, (IObj, IClass, SAny)):
        if isinstance(val, SAny):
            try:
                ops.any_op("format")
            except TypeError:
                raise
            return py_str(interp, val)
        raise TypeError(f"unsupported format string passed to {ops.type_name(val)}.__format__")
    raise OutOfReach(f"format of {ops.type_name(val)} with spec")


_fmtlen = z3.Function("fmtlen", z3.IntSort(), z3.IntSort(), z3.IntSort())


# ----------------------------------------------------------------------------
# struct
# ----------------------------------------------------------------------------
INT_CODES = {"b": (1, True), "B": (1, False), "h": (2, True), "H": (2, False), "i": (4, True), "I": (4, False),
             "l": (4, True), "L": (4, False), "q": (8, True), "Q": (8, False)}
FLOAT_CODES = {"f": 4, "d": 8}

F64 = z3.DeclareSort("F64")
f32_bits = z3.Function("f32_bits", F64, z3.IntSort())
f64_bits = z3.Function("f64_bits", F64, z3.IntSort())
f32_val = z3.Function("f32_val", z3.IntSort(), F64)
f64_val = z3.Function("f64_val", z3.IntSort(), F64)
f32_round = z3.Function("f32_round", F64, F64)
f32_fits = z3.Function("f32_fits", F64, z3.BoolSort())
int_to_f = z3.Function("int_to_f64", z3.IntSort(), F64)


def _parse_fmt(fmt):
    if isinstance(fmt, Rope):
        raise OutOfReach("symbolic struct format")
    if not isinstance(fmt, (str, bytes)):
        raise TypeError("Struct() argument 1 must be a str or bytes object")
    if isinstance(fmt, bytes):
        fmt = fmt.decode()
    order = "<"
    body = fmt
    if fmt[:1] in "<>!=@":
        order, body = fmt[0], fmt[1:]
    if order in "=@":
        order = "<"
    if order == "!":
        order = ">"
    if len(body) != 1 or (body not in INT_CODES and body not in FLOAT_CODES):
        if fmt == "":
            return order, None
        raise OutOfReach(f"struct format {fmt!r}")
    return order, body


def le_bytes(u, n, order="<"):
    """bytes of 0 <= u < 256**n (the caller has established the range): the top byte needs no modulo"""
    from .sym import bounds
    lo_b, hi_b = bounds(simp(u))
    items = []
    for k in range(n):
        if lo_b is not None and hi_b is not None and lo_b >= 0 and hi_b < 256 ** k:
            items.append(I(0))
        elif k == n - 1:
            items.append(simp(u / I(256 ** k)) if k else simp(u))
        else:
            items.append(simp((u / I(256 ** k)) % 256))
    if order == ">":
        items.reverse()
    return items


def struct_pack(fmt, *vals):
    order, code = _parse_fmt(fmt)
    if code is None:
        if vals:
            raise _struct.error("pack expected 0 items for packing")
        return b""
    if len(vals) != 1:
        raise _struct.error(f"pack expected 1 items for packing (got {len(vals)})")
    v = vals[0]
    axiom(f"struct.pack({fmt!r}): two's-complement / IEEE little- or big-endian encoding, struct.error outside the range")
    if not ops.is_sym(v):
        if isinstance(v, (IObj, IClass, IByteArray, list, dict, tuple)) or v is None:
            raise _struct.error("required argument is not an integer")
        return _struct.pack(fmt, v)
    if isinstance(v, SAny):
        raise _struct.error("required argument is not an integer")
    if code in INT_CODES:
        n, signed = INT_CODES[code]
        if isinstance(v, (Rope, SFloat)):
            raise _struct.error("required argument is not an integer")
        t = T(v)
        lo, hi = (-(1 << (8 * n - 1)), (1 << (8 * n - 1)) - 1) if signed else (0, (1 << (8 * n)) - 1)
        from .sym import bounds
        blo, bhi = bounds(simp(t))
        inside = blo is not None and bhi is not None and lo <= blo and bhi <= hi
        if not inside and not ctx().branch(z3.And(t >= lo, t <= hi)):
            raise _struct.error(f"'{code}' format requires {lo} <= number <= {hi}")
        u = simp(z3.If(t < 0, t + (1 << (8 * n)), t)) if signed else t
        return mk_rope("bytes", [BL(le_bytes(u, n, order))])
    n = FLOAT_CODES[code]
    if isinstance(v, Rope):
        raise _struct.error("required argument is not a float")
    f = v.t if isinstance(v, SFloat) else int_to_f(T(v))
    c = ctx()
    if n == 4:
        if not c.branch(f32_fits(f)):
            raise OverflowError("float too large to pack with f format")
        bits = f32_bits(f)
        c.assume(z3.And(bits >= 0, bits < (1 << 32), f32_val(bits) == f32_round(f)))
    else:
        bits = f64_bits(f)
        c.assume(z3.And(bits >= 0, bits < (1 << 64), f64_val(bits) == f))
    return mk_rope("bytes", [BL(le_bytes(bits, n, order))])


def _int_from(items, signed, order):
    if order == ">":
        items = list(reversed(items))
    u = I(0)
    for k, it in enumerate(items):
        u = u + T(it) * I(256 ** k)
    n = len(items)
    from .sym import recombine_bytes
    u = recombine_bytes(u)
    if signed:
        u = z3.If(u >= (1 << (8 * n - 1)), u - (1 << (8 * n)), u)
    return simp(u)


def struct_unpack(fmt, data, _offset=None):
    order, code = _parse_fmt(fmt)
    axiom(f"struct.unpack({fmt!r}): inverse of pack, struct.error unless len(buffer) == size")
    if isinstance(data, IByteArray):
        data = data.value
    if isinstance(data, SAny):
        raise TypeError("a bytes-like object is required, not 'unknown'")
    if not ops.is_bytes(data):
        raise TypeError(f"a bytes-like object is required, not '{ops.type_name(data)}'")
    if not ops.is_sym(data) and not ops.is_sym(_offset):
        if _offset is None:
            return _struct.unpack(fmt, data)
        return _struct.unpack_from(fmt, data, _offset)
    n = INT_CODES[code][0] if code in INT_CODES else FLOAT_CODES[code]
    r = to_rope(data)
    ln = rope_len_term(r)
    c = ctx()
    if _offset is None:
        if not c.branch(ln == n):
            raise _struct.error(f"unpack requires a buffer of {n} bytes")
        off = I(0)
    else:
        off = T(_offset)
        if not c.branch(off >= 0):
            raise OutOfReach("negative unpack_from offset")
        if not c.branch(ln - off >= n):
            raise _struct.error(f"unpack_from requires a buffer of at least {n} bytes")
    items = [rope_index_term(r, simp(off + k)) for k in range(n)]
    if code in INT_CODES:
        return (mk_int(_int_from(items, INT_CODES[code][1], order)),)
    bits = _int_from(items, False, order)
    fv = (f32_val if n == 4 else f64_val)(bits)
    return (SFloat(fv),)


def struct_unpack_from(fmt, data, offset=0):
    return struct_unpack(fmt, data, _offset=offset)


def struct_calcsize(fmt):
    return _struct.calcsize(fmt)


# ----------------------------------------------------------------------------
# BytesIO
# ----------------------------------------------------------------------------
def stream_read(s, n=None):
    axiom("BytesIO.read(n) returns buf[pos:pos+n] (clamped) and advances pos by the number of bytes returned")
    if isinstance(n, SAny):
        ops.any_op("read")
        raise OutOfReach("read with unknown size")
    buf = s.buf
    if n is None or (isinstance(n, int) and n < 0):
        if not ops.is_sym(buf) and not ops.is_sym(s.pos):
            r = buf[s.pos:]
            s.pos = max(s.pos, len(buf)) if s.pos > len(buf) else len(buf)
            return r
        r = rope_slice(buf, s.pos, None)
        ln = rope_len_term(buf)
        from .sym import _decide
        if not _decide(T(s.pos) > ln):
            s.pos = mk_int(ln)
        return r
    if n is not None and not is_intlike(n):
        raise TypeError(f"argument should be integer or None, not '{ops.type_name(n)}'")
    if not ops.is_sym(buf) and not ops.is_sym(s.pos) and not ops.is_sym(n):
        r = buf[s.pos:s.pos + n]
        s.pos += len(r)
        return r
    tn = T(n)
    c = ctx()
    if not c.is_true(tn >= 0):
        if not c.branch(tn >= 0):
            # negative size: read everything
            return stream_read(s, None)
    r = to_rope(buf)
    ln = rope_len_term(r)
    pos = simp(T(s.pos))
    from .sym import _decide
    lo = ln if _decide(pos > ln) else pos
    hi = ln if _decide(pos + tn > ln) else simp(pos + tn)
    if _decide(hi < lo):
        hi = lo
    out = _rope_cut(r, lo, hi)
    s.pos = mk_int(pos + (hi - lo))
    return out


class _NBytes:
    def __init__(self, n):
        self.nbytes = n


def native_stream_attr(interp, s, name):
    if name == "read":
        return INative("BytesIO.read", lambda n=None: stream_read(s, n))
    if name == "tell":
        return INative("BytesIO.tell", lambda: s.pos)
    if name == "getvalue":
        return INative("BytesIO.getvalue", lambda: s.buf)
    if name == "getbuffer":
        return INative("BytesIO.getbuffer", lambda: IObj(NBYTES, {"nbytes": ops.py_len(s.buf)}))
    if name == "seek":
        def seek(p, whence=0):
            if whence != 0:
                raise OutOfReach("seek whence")
            s.pos = p
            return p
        return INative("BytesIO.seek", seek)
    return MISSING


NBYTES = IClass("memoryview", [OBJECT], {})


def _bytesio_construct(interp, cls, args, kwargs):
    buf = args[0] if args else b""
    if isinstance(buf, IByteArray):
        buf = buf.value
    if isinstance(buf, SAny):
        ops.any_op("BytesIO")
        raise OutOfReach("BytesIO of unknown value")
    if not ops.is_bytes(buf):
        raise TypeError(f"a bytes-like object is required, not '{ops.type_name(buf)}'")
    return IStream(buf)


BT["BytesIO"].ns["__construct__"] = _bytesio_construct
BT["BytesIO"].native = True


# ----------------------------------------------------------------------------
# bytearray
# ----------------------------------------------------------------------------
def _bytearray_construct(interp, cls, args, kwargs):
    if not args:
        return IByteArray(b"")
    a = args[0]
    if isinstance(a, int) and not isinstance(a, bool):
        return IByteArray(bytes(a))
    if isinstance(a, SInt):
        if not ctx().branch(a.t >= 0):
            raise ValueError("negative count")
        return IByteArray(mk_rope("bytes", [BR(0, a.t)]))
    if ops.is_bytes(a):
        return IByteArray(a)
    if isinstance(a, IByteArray):
        return IByteArray(a.value)
    if isinstance(a, list):
        return IByteArray(make_bytes(interp, a))
    raise OutOfReach("bytearray() argument")


BT["bytearray"].ns["__construct__"] = _bytearray_construct
BT["bytearray"].native = True


def bytearray_setitem(interp, ba, key, v):
    val = ba.value
    if isinstance(key, slice):
        if key.step not in (None, 1):
            raise OutOfReach("bytearray extended slice store")
        if isinstance(v, IByteArray):
            v = v.value
        if not ops.is_bytes(v):
            if isinstance(v, list):
                v = make_bytes(interp, v)
            else:
                raise TypeError("can assign only bytes, buffers, or iterables of ints in range(0, 256)")
        if not ops.is_sym(val) and not ops.is_sym(v) and not ops.is_sym(key.start) and not ops.is_sym(key.stop):
            b = bytearray(val)
            b[key.start:key.stop] = v
            ba.value = bytes(b)
            return
        r = to_rope(val)
        n = rope_len_term(r)
        lo, hi = _clamp_bounds(n, key.start, key.stop)
        left = _rope_cut(r, I(0), lo)
        right = _rope_cut(r, hi, n)
        ba.value = rope_concat(rope_concat(left, v), right)
        return
    if not is_intlike(key):
        raise TypeError("bytearray indices must be integers or slices")
    if not is_intlike(v):
        raise TypeError(f"'{ops.type_name(v)}' object cannot be interpreted as an integer")
    c = ctx_or_none()
    if not ops.is_sym(val) and not ops.is_sym(key) and not ops.is_sym(v):
        b = bytearray(val)
        b[key] = v
        ba.value = bytes(b)
        return
    c = ctx()
    if not c.branch(z3.And(T(v) >= 0, T(v) <= 255)):
        raise ValueError("byte must be in range(0, 256)")
    r = to_rope(val)
    n = rope_len_term(r)
    k = T(key)
    if not c.branch(z3.And(k >= -n, k < n)):
        raise IndexError("bytearray index out of range")
    if not c.is_true(k >= 0):
        if not c.branch(k >= 0):
            k = simp(k + n)
    left = _rope_cut(r, I(0), simp(k))
    right = _rope_cut(r, simp(k + 1), n)
    ba.value = rope_concat(rope_concat(left, mk_rope("bytes", [BL([v])])), right)


def make_bytes(interp, items):
    out = []
    allc = True
    for it in items:
        if isinstance(it, bool) or not is_intlike(it):
            if isinstance(it, bool):
                it = int(it)
            else:
                raise TypeError(f"'{ops.type_name(it)}' object cannot be interpreted as an integer")
        if isinstance(it, int):
            if not 0 <= it <= 255:
                raise ValueError("bytes must be in range(0, 256)")
        else:
            allc = False
            if not ctx().branch(z3.And(T(it) >= 0, T(it) <= 255)):
                raise ValueError("bytes must be in range(0, 256)")
        out.append(it)
    if allc:
        return bytes(out)
    return mk_rope("bytes", [BL(out)])


# ----------------------------------------------------------------------------
# generator functions (restricted subset: straight-line + while/if with yields)
# ----------------------------------------------------------------------------
def make_generator(interp, fn, env):
    def run_block(stmts):
        for s in stmts:
            if isinstance(s, ast.Expr) and isinstance(s.value, ast.Yield):
                v = interp.eval(s.value.value, env) if s.value.value is not None else None
                yield v
            elif isinstance(s, ast.While):
                while interp.truth(interp.eval(s.test, env)):
                    yield from run_block(s.body)
            elif isinstance(s, ast.If):
                if interp.truth(interp.eval(s.test, env)):
                    yield from run_block(s.body)
                else:
                    yield from run_block(s.orelse)
            elif isinstance(s, ast.For):
                for x in interp.iter_list(interp.eval(s.iter, env)):
                    interp.assign(s.target, x, env)
                    yield from run_block(s.body)
            elif isinstance(s, (ast.Assign, ast.AugAssign, ast.AnnAssign, ast.Expr, ast.Pass)):
                if any(isinstance(n, (ast.Yield, ast.YieldFrom)) for n in ast.walk(s)):
                    raise OutOfReach("yield in unsupported position")
                interp.exec_stmt(s, env)
            else:
                raise OutOfReach(f"generator statement {type(s).__name__}")

    return IGen(run_block(fn.node.body), env)


def py_next(interp, args, kwargs):
    it = args[0]
    if isinstance(it, IGen):
        try:
            return next(it.pygen)
        except StopIteration:
            if len(args) > 1:
                return args[1]
            raise
    if isinstance(it, IIter):
        try:
            return it.next()
        except StopIteration:
            if len(args) > 1:
                return args[1]
            raise
    if isinstance(it, SAny):
        return ops.any_op("next")
    raise TypeError(f"'{ops.type_name(it)}' object is not an iterator")


# ----------------------------------------------------------------------------
# NamedTuple
# ----------------------------------------------------------------------------
def make_namedtuple_class(interp, name, ns, module, qualname):
    fields = list(ns.pop("__annotations_order__", []))
    defaults = {f: ns.pop(f) for f in fields if f in ns}
    cls = IClass(name, [OBJECT], ns, module=module, qualname=qualname)
    cls.ns["_fields_nt"] = tuple(fields)
    cls.ns["_fields"] = tuple(fields)

    def construct(i, c, args, kwargs):
        vals = {}
        if len(args) > len(fields):
            raise TypeError(f"{name}() takes {len(fields)} positional arguments but {len(args)} were given")
        for f, a in zip(fields, args):
            vals[f] = a
        for k, v in kwargs.items():
            if k not in fields:
                raise TypeError(f"{name}() got an unexpected keyword argument '{k}'")
            if k in vals:
                raise TypeError(f"{name}() got multiple values for argument '{k}'")
            vals[k] = v
        for f in fields:
            if f not in vals:
                if f in defaults:
                    vals[f] = defaults[f]
                else:
                    raise TypeError(f"{name}() missing required argument: '{f}'")
        return IObj(c, {f: vals[f] for f in fields})
    cls.ns["__construct__"] = construct
    cls.native = True
    interp._bind_defcls(cls)
    return cls


# ----------------------------------------------------------------------------
# native attribute access on python values / ropes
# ----------------------------------------------------------------------------
def native_getattr(interp, obj, name):
    from . import rx
    if isinstance(obj, rx.RxPattern):
        if name in ("fullmatch", "match", "search"):
            return INative("re.Pattern." + name, lambda s_: getattr(rx, name)(obj, s_))
        if name in ("pattern", "flags", "groups", "groupindex"):
            return getattr(obj, name)
        raise OutOfReach(f"re.Pattern.{name}")
    if isinstance(obj, rx.RxMatch):
        if name in ("group", "groupdict", "groups", "span", "start", "end"):
            return INative("re.Match." + name, getattr(obj, name))
        if name == "string":
            return obj.string
        if name == "re":
            return obj.re
        raise OutOfReach(f"re.Match.{name}")
    if isinstance(obj, IStream):
        return native_stream_attr(interp, obj, name)
    if isinstance(obj, IByteArray):
        return _seq_method(interp, obj.value, name, ba=obj)
    if ops.is_str(obj) or ops.is_bytes(obj):
        return _seq_method(interp, obj, name)
    if isinstance(obj, list):
        return _list_method(interp, obj, name)
    if isinstance(obj, dict):
        return _dict_method(interp, obj, name)
    if isinstance(obj, (tuple, set, frozenset)):
        if hasattr(obj, name):
            m = getattr(obj, name)
            if any(ops.is_sym(x) for x in obj) and name in ("index", "count"):
                raise OutOfReach(f"{name} on container with symbolic items")
            return INative(f"{type(obj).__name__}.{name}", m)
        return MISSING
    if isinstance(obj, (int, SInt, SBool)) and not isinstance(obj, bool):
        if name == "to_bytes":
            def to_bytes(length, byteorder="big", signed=False):
                if not ops.is_sym(obj):
                    return obj.to_bytes(length, byteorder, signed=signed)
                if signed:
                    raise OutOfReach("signed to_bytes")
                if not ctx().branch(z3.And(T(obj) >= 0, T(obj) < (1 << (8 * length)))):
                    raise OverflowError("int too big to convert")
                return mk_rope("bytes", [BL(le_bytes(T(obj), length, "<" if byteorder == "little" else ">"))])
            return INative("int.to_bytes", to_bytes)
        if name == "bit_length" and isinstance(obj, int):
            return INative("int.bit_length", obj.bit_length)
        return MISSING
    if isinstance(obj, IIter) or isinstance(obj, IGen):
        return MISSING
    if isinstance(obj, IProperty):
        if name == "setter":
            def setter(f):
                return IProperty(obj.fget, f)
            return INative("property.setter", setter)
        return MISSING
    if isinstance(obj, range):
        return INative("range." + name, getattr(obj, name)) if hasattr(obj, name) else MISSING
    if obj is None:
        return MISSING
    if isinstance(obj, float):
        return INative("float." + name, getattr(obj, name)) if hasattr(obj, name) else MISSING
    if isinstance(obj, (SAny,)):
        return MISSING
    if isinstance(obj, INative):
        sub = getattr(obj, "attrs", {}).get(name, MISSING)
        return sub
    return MISSING


def _list_method(interp, lst, name):
    if name in ("append", "extend", "insert", "clear", "copy", "reverse"):
        if name == "extend":
            return INative("list.extend", lambda it: lst.extend(interp.iter_list(it)))
        if name == "insert":
            def insert(i, v):
                if ops.is_sym(i):
                    raise OutOfReach("list.insert at symbolic index")
                lst.insert(i, v)
            return INative("list.insert", insert)
        return INative("list." + name, getattr(lst, name))
    if name == "pop":
        def pop(i=-1):
            if ops.is_sym(i):
                raise OutOfReach("list.pop at symbolic index")
            return lst.pop(i)
        return INative("list.pop", pop)
    if name in ("index", "count", "remove", "sort"):
        def m(*a, **k):
            if any(ops.is_sym(x) or isinstance(x, (IObj,)) for x in lst) or any(ops.is_sym(x) for x in a):
                raise OutOfReach(f"list.{name} with symbolic content")
            return getattr(lst, name)(*a, **k)
        return INative("list." + name, m)
    return MISSING


def _dict_method(interp, d, name):
    if name == "get":
        def get(k, default=None):
            if isinstance(k, (SInt,)) and len(d) > 64 and all(isinstance(x, (str, int)) for x in d.values()) \
                    and (default is None or isinstance(default, str)):
                # big code table with a symbolic integer key: the table is used as an uninterpreted function
                # (dict identity, key) -> text; the same lookup elsewhere yields the very same opaque value
                axiom("a lookup in a table of more than 64 entries with a symbolic key is an uninterpreted function of (table, key)")
                c = ctx()
                ln = z3.Int(f"dictget_len_{id(d)}_{k.t.get_id()}")
                key = ("dictget", id(d), k.t.sexpr(), repr(default))
                if key not in c.ghost:
                    c.ghost[key] = True
                    c.assume(ln >= 1)
                return mk_rope("str", [BX(key, ln)])
            v = ops.sym_key_lookup(d, k)
            return default if v is MISSING else v
        return INative("dict.get", get)
    if name == "pop":
        def pop(k, *default):
            if ops.is_sym(k):
                raise OutOfReach("dict.pop with symbolic key")
            try:
                hash(k)
            except TypeError:
                raise
            return d.pop(k, *default)
        return INative("dict.pop", pop)
    if name in ("items", "keys", "values"):
        return INative("dict." + name, lambda: list(getattr(d, name)()))
    if name == "copy":
        return INative("dict.copy", d.copy)
    if name == "update":
        def update(other=(), **kw):
            if isinstance(other, dict):
                for k in other:
                    if ops.is_sym(k):
                        raise OutOfReach("dict.update symbolic key")
                d.update(other)
            else:
                for k, v in interp.iter_list(other):
                    d[k] = v
            d.update(kw)
        return INative("dict.update", update)
    if name == "setdefault":
        def setdefault(k, default=None):
            if ops.is_sym(k):
                raise OutOfReach("dict.setdefault symbolic key")
            return d.setdefault(k, default)
        return INative("dict.setdefault", setdefault)
    if name == "clear":
        return INative("dict.clear", d.clear)
    if name in ("__getitem__", "__contains__"):
        if name == "__getitem__":
            return INative("dict.__getitem__", lambda k: ops.py_getitem(d, k))
        return INative("dict.__contains__", lambda k: ops.py_contains(d, k))
    return MISSING


def _seq_method(interp, s, name, ba=None):
    kind = "str" if ops.is_str(s) else "bytes"

    def conc(*vals):
        return not ops.is_sym(s) and not any(ops.is_sym(v) or _has_sym(v) for v in vals)

    def native(*a, **k):
        return getattr(s, name)(*a, **k)

    if name == "join":
        def join(items):
            items = interp.iter_list(items)
            for it in items:
                if isinstance(it, IByteArray):
                    pass
                elif not (ops.is_str(it) if kind == "str" else ops.is_bytes(it)):
                    if isinstance(it, SAny):
                        ops.any_op("join")
                    raise TypeError(f"sequence item: expected {kind} instance, {ops.type_name(it)} found")
            items = [it.value if isinstance(it, IByteArray) else it for it in items]
            if conc(*items):
                return s.join(items)
            return strs.rope_join(s, items)
        return INative(kind + ".join", join)
    if name in ("split", "rsplit"):
        def split(sep=None, maxsplit=-1):
            if conc(sep):
                return getattr(s, name)(sep, maxsplit)
            if sep is None or ops.is_sym(sep):
                raise OutOfReach("split with symbolic / whitespace separator")
            if ops.is_sym(maxsplit):
                raise OutOfReach("symbolic maxsplit")
            return strs.rope_split(s, sep, maxsplit, from_right=(name == "rsplit"))
        return INative(kind + "." + name, split)
    if name == "find":
        def find(sub, *rest):
            if conc(sub, *rest):
                return s.find(sub, *rest)
            if rest or ops.is_sym(sub):
                raise OutOfReach("find with bounds / symbolic needle")
            return strs.rope_find(s, sub)
        return INative(kind + ".find", find)
    if name in ("startswith", "endswith"):
        def sw(prefix, *rest):
            if conc(prefix, *rest):
                return getattr(s, name)(prefix, *rest)
            if rest:
                raise OutOfReach("startswith with bounds")
            if isinstance(prefix, tuple):
                res = False
                for p in prefix:
                    r = sw(p)
                    if r is True:
                        return True
                    if r is not False:
                        res = r if res is False else mk_bool(z3.Or(B(res), B(r)))
                return res
            if ops.is_sym(prefix):
                raise OutOfReach("symbolic prefix")
            return (strs.rope_startswith if name == "startswith" else strs.rope_endswith)(s, prefix)
        return INative(kind + "." + name, sw)
    if name == "replace":
        def replace(a, b, *rest):
            if conc(a, b, *rest):
                return s.replace(a, b, *rest)
            if rest:
                raise OutOfReach("replace with a count")
            if not ((ops.is_str(a) and ops.is_str(b)) if kind == "str" else (ops.is_bytes(a) and ops.is_bytes(b))):
                raise TypeError("replace() arguments must be " + kind)
            return strs.rope_replace(s, a, b)
        return INative(kind + ".replace", replace)
    if name in ("lower", "upper"):
        def lower():
            if conc():
                return getattr(s, name)()
            return strs.rope_lower(s, upper=(name == "upper"))
        return INative(kind + "." + name, lower)
    if name in ("isdigit", "isnumeric", "isdecimal"):
        def isdigit():
            if conc():
                return getattr(s, name)()
            return strs.rope_isdigit(s)
        return INative(kind + "." + name, isdigit)
    if name == "encode" and kind == "str":
        def encode(encoding="utf-8", errors="strict"):
            if conc():
                return s.encode(encoding, errors)
            return strs.rope_encode(s, encoding, errors)
        return INative("str.encode", encode)
    if name == "decode" and kind == "bytes":
        def decode(encoding="utf-8", errors="strict"):
            if conc():
                return bytes(s).decode(encoding, errors)
            return strs.rope_decode(s, encoding, errors)
        return INative("bytes.decode", decode)
    if name == "hex" and kind == "bytes":
        def hex_(*a):
            if conc():
                return bytes(s).hex(*a)
            raise OutOfReach("hex of symbolic bytes")
        return INative("bytes.hex", hex_)
    if name == "fromhex":
        return INative("bytes.fromhex", lambda h: bytes.fromhex(h) if not ops.is_sym(h) else _oor("fromhex of symbolic str"))
    if name in ("ljust", "rjust"):
        def just(width, fill=None):
            if conc(width, fill):
                return getattr(s, name)(width) if fill is None else getattr(s, name)(width, fill)
            if fill is None:
                fill = " " if kind == "str" else b" "
            if ops.is_sym(fill) or len(fill) != 1:
                raise OutOfReach(f"{kind}.{name} with a symbolic fill")
            code = ord(fill) if kind == "str" else fill[0]
            r = to_rope(s)
            lt = rope_len_term(r)
            c = ctx()
            if not c.branch(simp(T(lt) < T(width))):
                return s
            pad = mk_rope(kind, [BR(code, simp(T(width) - T(lt)))])
            return rope_concat(r, pad) if name == "ljust" else rope_concat(pad, r)
        return INative(kind + "." + name, just)
    if name == "format" and kind == "str":
        def fmt(*a, **k):
            if conc(*a) and not any(ops.is_sym(v) or _has_sym(v) for v in k.values()):
                if not any(isinstance(v, (IObj, IClass, IFunc, IBound, IModule)) for v in list(a) + list(k.values())):
                    return s.format(*a, **k)
            if ops.is_sym(s):
                raise OutOfReach("format on a symbolic template")
            import string as _string
            out, auto = "", 0
            for lit, field, spec, conv in _string.Formatter().parse(s):
                if lit:
                    out = out + lit if not ops.is_sym(out) else rope_concat(out, lit)
                if field is None:
                    continue
                if "{" in (spec or "") or "." in field or "[" in field:
                    raise OutOfReach("str.format with nested or attribute fields")
                if field == "":
                    if auto >= len(a):
                        raise IndexError("Replacement index out of range for positional args tuple")
                    val = a[auto]
                    auto += 1
                elif field.isdigit():
                    if int(field) >= len(a):
                        raise IndexError("Replacement index out of range for positional args tuple")
                    val = a[int(field)]
                else:
                    if field not in k:
                        raise KeyError(field)
                    val = k[field]
                piece = format_value(interp, val, ord(conv) if conv else -1, spec or "")
                out = piece if (not ops.is_sym(out) and out == "") else \
                    (out + piece if not (ops.is_sym(out) or ops.is_sym(piece)) else rope_concat(out, piece))
            return out
        return INative("str.format", fmt)
    if name in ("strip", "lstrip", "rstrip", "title", "capitalize", "format", "zfill", "ljust", "rjust", "center",
                "isalpha", "isalnum", "isupper", "islower", "isspace", "count", "index", "rfind", "partition",
                "rpartition", "splitlines", "swapcase", "casefold", "isascii", "isidentifier", "expandtabs",
                "translate", "removeprefix", "removesuffix"):
        def generic(*a, **k):
            if conc(*a) and not any(ops.is_sym(v) for v in k.values()):
                return getattr(s, name)(*a, **k)
            raise OutOfReach(f"{kind}.{name} on symbolic value")
        if hasattr(s if not ops.is_sym(s) else ("" if kind == "str" else b""), name):
            return INative(kind + "." + name, generic)
    if name == "copy" and ba is not None:
        return INative("bytearray.copy", lambda: IByteArray(ba.value))
    if name in ("append", "extend") and ba is not None:
        def app(v):
            if name == "append":
                ba.value = rope_concat(ba.value, make_bytes(interp, [v]))
            else:
                ba.value = rope_concat(ba.value, v if ops.is_bytes(v) else make_bytes(interp, interp.iter_list(v)))
        return INative("bytearray." + name, app)
    return MISSING


def _oor(msg):
    raise OutOfReach(msg)


# ----------------------------------------------------------------------------
# builtins
# ----------------------------------------------------------------------------
def make_builtins(interp):
    b = {}

    def reg(name, fn, raw=False):
        b[name] = INative(name, fn, raw=raw)

    b.update(BT)
    for k, v in EXC.items():
        if "." not in k and k not in ("error", "AddressValueError"):
            b[k] = v
    b["None"], b["True"], b["False"], b["Ellipsis"] = None, True, False, Ellipsis
    b["NotImplemented"] = NotImplemented

    def _memoryview(v):
        # a read-only view of immutable bytes behaves as those bytes for len / truth / slicing / concatenation / comparison /
        # passing to send(); (type name, .nbytes, .release() and views of a bytearray are not modelled)
        if isinstance(v, IByteArray):
            raise OutOfReach("memoryview of a bytearray")
        if not ops.is_bytes(v):
            raise TypeError("memoryview: a bytes-like object is required")
        return v
    reg("memoryview", _memoryview)
    reg("len", lambda v: _len(interp, v))
    reg("isinstance", lambda v, t: py_isinstance(interp, v, t))
    reg("issubclass", lambda c, t: py_issubclass(interp, c, t))
    reg("next", lambda i, a, k: py_next(interp, a, k), raw=True)
    reg("super", lambda i, a, k: ISuper(a[0], a[1]), raw=True)
    reg("repr", lambda v: py_repr(interp, v))
    reg("id", lambda v: id(v))
    reg("callable", lambda v: isinstance(v, (IFunc, IBound, INative, IClass)))
    reg("hash", lambda v: hash(v) if not ops.is_sym(v) else _oor("hash of symbolic"))
    reg("print", lambda *a, **k: None)
    reg("getattr", lambda o, n, *d: interp.getattr_(o, n, *(d[:1] or (MISSING,))))
    reg("setattr", lambda o, n, v: interp.setattr_(o, n, v))
    reg("hasattr", lambda o, n: interp._getattr(o, n) is not MISSING)
    reg("iter", lambda v: v if isinstance(v, (IIter, IGen)) else IIter(interp.iter_list(v)))
    reg("enumerate", lambda v, start=0: [(start + i, x) for i, x in enumerate(interp.iter_list(v))])
    reg("reversed", lambda v: list(reversed(interp.iter_list(v))))
    reg("sorted", lambda v, **k: _sorted(interp, v, k))
    reg("zip", lambda *its: list(zip(*[interp.iter_list(x) for x in its])))
    reg("map", lambda f, *its: [interp.call(f, list(xs), {}) for xs in zip(*[interp.iter_list(x) for x in its])])
    reg("filter", lambda f, it: [x for x in interp.iter_list(it) if interp.truth(x if f is None else interp.call(f, [x], {}))])
    reg("all", lambda it: _all(interp, it))
    reg("any", lambda it: _any(interp, it))
    reg("sum", lambda it, start=0: _sum(interp, it, start))
    reg("min", lambda *a, **k: _minmax(interp, a, k, True))
    reg("max", lambda *a, **k: _minmax(interp, a, k, False))
    reg("abs", lambda v: abs(v) if not ops.is_sym(v) else mk_int(z3.If(T(v) < 0, -T(v), T(v))))
    reg("divmod", lambda a, c: (ops.py_binop("//", a, c), ops.py_binop("%", a, c)))
    reg("chr", lambda v: chr(v) if not ops.is_sym(v) else mk_rope("str", [BL([T(v)])]))
    reg("ord", lambda v: ord(v) if not ops.is_sym(v) else mk_int(rope_index_term(v, 0)))
    reg("bin", lambda v: bin(v) if not ops.is_sym(v) else sym_bin(v))
    reg("hex", lambda v: hex(v) if not ops.is_sym(v) else _oor("hex() of symbolic int"))
    reg("round", lambda v, *a: round(v, *a) if not ops.is_sym(v) else _oor("round symbolic"))
    reg("pow", lambda a, c: ops.py_binop("**", a, c))
    reg("vars", lambda o: o.attrs if isinstance(o, IObj) else (o.ns if isinstance(o, (IClass, IModule)) else _oor("vars")))
    reg("format", lambda v, spec="": format_value(interp, v, -1, spec))

    # type constructors with call behaviour
    def _int(interp_, cls, args, kwargs):
        if not args:
            return 0
        v = args[0]
        if len(args) > 1 or kwargs:
            if ops.is_sym(v):
                raise OutOfReach("int(x, base) symbolic")
            return int(v, *args[1:], **kwargs)
        if isinstance(v, SAny):
            return ops.any_op("int")
        if isinstance(v, SBool):
            return mk_int(T(v))
        if isinstance(v, SInt):
            return v
        if isinstance(v, Rope):
            if v.kind == "str":
                return strs.rope_int(v)
            raise OutOfReach("int(bytes)")
        if isinstance(v, SFloat):
            raise OutOfReach("int(float)")
        if isinstance(v, (IObj, IClass, list, dict, tuple)) or v is None:
            raise TypeError(f"int() argument must be a string, a bytes-like object or a real number, not '{ops.type_name(v)}'")
        return int(v)
    BT["int"].ns["__construct__"] = _int

    def _int_from_bytes(data, byteorder="big", signed=False):
        if isinstance(data, IByteArray):
            data = data.value
        if not ops.is_sym(data):
            return int.from_bytes(data, byteorder, signed=signed)
        n = const_of(rope_len_term(data))
        if n is None:
            c = ctx()
            if not c.is_true(rope_len_term(data) <= 16):
                raise OutOfReach("int.from_bytes of unbounded symbolic length")
            n = c.concretize(rope_len_term(data), 0, 16, "int.from_bytes length")
            if n == 0:
                return 0
        items = [rope_index_term(data, k) for k in range(n)]
        return mk_int(_int_from(items, signed, "<" if byteorder == "little" else ">"))
    BT["int"].ns["from_bytes"] = IStaticMethod(INative("int.from_bytes", _int_from_bytes))

    def _bool(interp_, cls, args, kwargs):
        if not args:
            return False
        v = args[0]
        if isinstance(v, (bool, SBool)):
            return v
        t = ops.truth_term(v)
        if t is not None:
            return mk_bool(t) if not isinstance(t, bool) else t
        return interp.truth(v)
    BT["bool"].ns["__construct__"] = _bool

    def _str(interp_, cls, args, kwargs):
        if not args:
            return ""
        if len(args) > 1 or kwargs:
            v = args[0]
            enc = args[1] if len(args) > 1 else kwargs.get("encoding", "utf-8")
            if not ops.is_sym(v):
                return str(v, enc, *args[2:])
            return strs.rope_decode(v, enc)
        return py_str(interp, args[0])
    BT["str"].ns["__construct__"] = _str

    def _bytes(interp_, cls, args, kwargs):
        if not args:
            return b""
        v = args[0]
        if len(args) > 1 or kwargs:
            enc = args[1] if len(args) > 1 else kwargs.get("encoding")
            if not ops.is_str(v):
                raise TypeError("encoding without a string argument")
            if not ops.is_sym(v):
                return bytes(v, enc)
            return strs.rope_encode(v, enc)
        if isinstance(v, bool):
            return bytes(v)
        if isinstance(v, int):
            return bytes(v)
        if isinstance(v, SInt):
            if not ctx().branch(v.t >= 0):
                raise ValueError("negative count")
            return mk_rope("bytes", [BR(0, v.t)])
        if ops.is_bytes(v):
            return v
        if isinstance(v, IByteArray):
            return v.value
        if ops.is_str(v):
            raise TypeError("string argument without an encoding")
        if isinstance(v, SAny):
            return ops.any_op("bytes")
        if v is None:
            raise TypeError("cannot convert 'NoneType' object to bytes")
        return make_bytes(interp, interp.iter_list(v))
    BT["bytes"].ns["__construct__"] = _bytes
    BT["bytes"].ns["fromhex"] = IStaticMethod(INative("bytes.fromhex", lambda h: bytes.fromhex(h) if not ops.is_sym(h) else _oor("fromhex symbolic")))

    BT["list"].ns["__construct__"] = lambda i, c, a, k: list(interp.iter_list(a[0])) if a else []
    BT["tuple"].ns["__construct__"] = lambda i, c, a, k: tuple(interp.iter_list(a[0])) if a else ()

    def _dict(i, c, a, k):
        d = {}
        if a:
            src = a[0]
            if isinstance(src, dict):
                d.update(src)
            else:
                for kv in interp.iter_list(src):
                    kk, vv = interp.iter_list(kv)
                    d[kk] = vv
        d.update(k)
        return d
    BT["dict"].ns["__construct__"] = _dict

    def _set(i, c, a, k):
        items = interp.iter_list(a[0]) if a else []
        if any(ops.is_sym(x) for x in items):
            raise OutOfReach("set() of symbolic elements")
        return set(items)
    BT["set"].ns["__construct__"] = _set
    BT["frozenset"].ns["__construct__"] = lambda i, c, a, k: frozenset(_set(i, c, a, k))

    def _float(i, c, a, k):
        if not a:
            return 0.0
        if ops.is_sym(a[0]):
            raise OutOfReach("float() of symbolic")
        return float(a[0])
    BT["float"].ns["__construct__"] = _float

    def _range(i, c, a, k):
        if any(isinstance(x, SAny) for x in a):
            ops.any_op("range")
            raise OutOfReach("range of unknown")
        for x in a:
            if not is_intlike(x):
                raise TypeError(f"'{ops.type_name(x)}' object cannot be interpreted as an integer")
        if any(ops.is_sym(x) for x in a):
            vals = []
            for x in a:
                cv = const_of(T(x))
                if cv is None:
                    return SymRange(*a)
                vals.append(cv)
            return range(*vals)
        return range(*a)
    BT["range"].ns["__construct__"] = _range

    BT["classmethod"].ns["__construct__"] = lambda i, c, a, k: IClassMethod(a[0])
    BT["staticmethod"].ns["__construct__"] = lambda i, c, a, k: IStaticMethod(a[0])
    BT["property"].ns["__construct__"] = lambda i, c, a, k: IProperty(a[0], a[1] if len(a) > 1 else None)

    def _type(i, c, a, k):
        if len(a) == 1:
            v = a[0]
            if isinstance(v, IObj):
                return v.cls
            if isinstance(v, IClass):
                return v.meta or TYPE
            for nm in ("bool", "int", "float", "str", "bytes", "bytearray", "list", "tuple", "dict", "set"):
                if BT[nm].pred(v):
                    return BT[nm]
            if v is None:
                return BT["NoneType"]
            raise OutOfReach("type() of value")
        name, bases, ns = a
        return IClass(name, list(bases) or [OBJECT], ns, meta=None)
    TYPE.ns["__construct__"] = _type

    def _type_new(interp_, args, kwargs):
        # type.__new__(mcls, name, bases, classdict)
        mcls, name, bases, ns = args[:4]
        cls = IClass(name, list(bases) or [OBJECT], ns, meta=mcls if mcls is not TYPE else None)
        return cls
    TYPE.ns["__new__"] = IStaticMethod(INative("type.__new__", _type_new, raw=True))
    for cname in ("int", "bool", "str", "bytes", "list", "tuple", "dict", "set", "frozenset", "float", "range",
                  "classmethod", "staticmethod", "property"):
        BT[cname].native = True
    TYPE.native = True
    OBJECT.ns["__construct__"] = lambda i, c, a, k: IObj(c)
    OBJECT.ns["__new__"] = IStaticMethod(INative("object.__new__", lambda cls, *a, **k: IObj(cls)))
    OBJECT.ns["__init__"] = INative("object.__init__", lambda self, *a, **k: None)
    OBJECT.ns["__init__"].is_method = True
    return b


class SymRange:
    """range with symbolic bounds; only usable through a loop cut point"""

    def __init__(self, *a):
        if len(a) == 1:
            self.start, self.stop, self.step = 0, a[0], 1
        elif len(a) == 2:
            self.start, self.stop, self.step = a[0], a[1], 1
        else:
            self.start, self.stop, self.step = a


def sym_bin(v):
    """bin(v) for a symbolic int: '0b' + most-significant-first binary digits without leading zeros.  The digit
    count is fixed by a case split on the magnitude (complete: the loop is bounded by the operand width)."""
    axiom("bin(v)[2:] is the MSB-first digit string of v >= 0 without leading zeros")
    c = ctx()
    t = T(v)
    if not c.is_true(t >= 0):
        if not c.branch(t >= 0):
            raise OutOfReach("bin() of a negative symbolic int")
    width = None
    for w in (8, 16, 32, 64, 128):
        if c.is_true(t < (1 << w)):
            width = w
            break
    if width is None:
        raise OutOfReach("bin() of an unbounded symbolic int")
    n = width
    for k in range(1, width):
        if c.branch(t < (1 << k)):
            n = k
            break
    digits = [simp(48 + (t / I(1 << (n - 1 - j))) % 2) for j in range(n)]
    return mk_rope("str", [BL([48, 98] + digits)])


def _len(interp, v):
    if isinstance(v, (IObj, IClass)):
        nt = v.cls.ns.get("_fields_nt") if isinstance(v, IObj) else None
        if nt is not None:
            return len(nt)
        if isinstance(v, IObj) and v.cls is NBYTES:
            return v.attrs["nbytes"]           # len(memoryview of a BytesIO) == nbytes
        f = interp.find_dunder(v, "__len__")
        if f is not None:
            return interp.call(f, [], {})
        raise TypeError(f"object of type '{ops.type_name(v)}' has no len()")
    if v is None or isinstance(v, (int, float, SInt, SBool, SFloat)):
        raise TypeError(f"object of type '{ops.type_name(v)}' has no len()")
    if isinstance(v, (IFunc, IBound, INative, IStream, IModule)):
        raise TypeError(f"object of type '{type(v).__name__}' has no len()")
    if isinstance(v, IIter) or isinstance(v, IGen):
        raise TypeError("object of type 'generator' has no len()")
    if isinstance(v, range):
        return len(v)
    return ops.py_len(v)


def _all(interp, it):
    for x in interp.iter_list(it):
        if not interp.truth(x):
            return False
    return True


def _any(interp, it):
    for x in interp.iter_list(it):
        if interp.truth(x):
            return True
    return False


def _sum(interp, it, start):
    acc = start
    for x in interp.iter_list(it):
        acc = ops.py_binop("+", acc, x)
    return acc


def _minmax(interp, a, k, is_min):
    items = interp.iter_list(a[0]) if len(a) == 1 else list(a)
    if k:
        raise OutOfReach("min/max with key")
    if not items:
        raise ValueError("min() arg is an empty sequence")
    if not any(ops.is_sym(x) for x in items):
        return min(items) if is_min else max(items)
    acc = T(items[0])
    for x in items[1:]:
        t = T(x)
        acc = z3.If(t < acc, t, acc) if is_min else z3.If(t > acc, t, acc)
    return mk_int(acc)


def _sorted(interp, v, k):
    items = interp.iter_list(v)
    if any(ops.is_sym(x) or isinstance(x, IObj) for x in items) or k:
        raise OutOfReach("sorted on symbolic items")
    return sorted(items)


# ----------------------------------------------------------------------------
# library modules
# ----------------------------------------------------------------------------
def _mod(name, **ns):
    return IModule(name, dict(ns))


def library_module(interp, name):
    top = name.split(".")[0]
    if top in interp.roots:
        return None
    N = INative
    if name == "struct":
        return _mod("struct", pack=N("struct.pack", struct_pack), unpack=N("struct.unpack", struct_unpack),
                    unpack_from=N("struct.unpack_from", struct_unpack_from), calcsize=N("struct.calcsize", struct_calcsize),
                    error=EXC["struct.error"])
    if name == "io":
        return _mod("io", BytesIO=BT["BytesIO"])
    if name == "typing":
        ns = {k: IStub(k, "typing") for k in ("Any", "Optional", "Tuple", "Dict", "Union", "List", "Type", "Set",
                                              "Callable", "Iterable", "TypeVar", "Generic", "Literal")}
        ns["Sequence"] = BT["Sequence"]
        ns["Generator"] = BT["Generator"]
        ns["NamedTuple"] = IStub("NamedTuple", "typing")
        return IModule("typing", ns)
    if name == "logging":
        lg = IStub("logger", "logger")
        ns = {"getLogger": N("logging.getLogger", lambda *a: lg), "Logger": IStub("Logger", "logger"),
              "NullHandler": IStub("NullHandler", "logger"), "DEBUG": 10, "INFO": 20, "WARNING": 30, "ERROR": 40}
        return IModule("logging", ns)
    if name == "reprlib":
        return _mod("reprlib", repr=N("reprlib.repr", lambda v: py_repr(interp, v)))
    if name == "itertools":
        def chain_from_iterable(its):
            out = []
            for it in interp.iter_list(its):
                out.extend(interp.iter_list(it))
            return IIter(out)
        chain = N("itertools.chain", lambda *its: IIter([x for it in its for x in interp.iter_list(it)]))
        chain.attrs = {"from_iterable": N("chain.from_iterable", chain_from_iterable)}

        def tee(it, n=2):
            items = interp.iter_list(it)
            axiom("itertools.tee yields n independent iterators over the same finite sequence")
            return tuple(IIter(items) for _ in range(n))

        def zip_longest(*its, fillvalue=None):
            lists = [interp.iter_list(x) for x in its]
            m = max((len(x) for x in lists), default=0)
            axiom("itertools.zip_longest pads the shorter sequences with fillvalue")
            return [tuple(x[i] if i < len(x) else fillvalue for x in lists) for i in range(m)]
        return _mod("itertools", chain=chain, tee=N("itertools.tee", tee), zip_longest=N("itertools.zip_longest", zip_longest),
                    cycle=IStub("itertools.cycle", "typing"))
    if name == "functools":
        def reduce(f, it, *init):
            items = interp.iter_list(it)
            if init:
                acc = init[0]
            else:
                if not items:
                    raise TypeError("reduce() of empty iterable with no initial value")
                acc, items = items[0], items[1:]
            for x in items:
                acc = interp.call(f, [acc, x], {})
            return acc

        def wraps(f):
            def deco(g):
                if isinstance(g, IFunc) and isinstance(f, IFunc):
                    g.attrs["__wrapped__"] = f
                    g.attrs["__name__"] = f.name
                return g
            return N("functools.wraps.deco", deco)
        return _mod("functools", reduce=N("functools.reduce", reduce), wraps=N("functools.wraps", wraps))
    if name == "operator":
        return _mod("operator", mul=N("operator.mul", lambda a, c: ops.py_binop("*", a, c)),
                    add=N("operator.add", lambda a, c: ops.py_binop("+", a, c)))
    if name == "os":
        def urandom(n):
            axiom("os.urandom(n) returns any n bytes")
            c = ctx_or_none()
            if c is None:
                return bytes(n)
            from .sym import Base
            b = Base(c.fresh_name("urandom"), "bytes", I(n))
            return mk_rope("bytes", [BS(b, 0, n)])
        return _mod("os", urandom=N("os.urandom", urandom))
    if name == "ipaddress":
        return _ipaddress_module(interp)
    if name == "socket":
        return _mod("socket", error=EXC["OSError"], timeout=EXC["TimeoutError"], socket=IStub("socket.socket", "env"),
                    AF_INET=2, SOCK_STREAM=1, SOCK_DGRAM=2, SOL_SOCKET=1, SO_KEEPALIVE=9, SO_BROADCAST=6,
                    gethostbyname=IStub("socket.gethostbyname", "env"), getaddrinfo=IStub("socket.getaddrinfo", "env"),
                    gethostname=IStub("socket.gethostname", "env"), AddressFamily=IStub("AddressFamily", "env"))
    if name == "re":
        from . import rx
        import re as _pyre
        return _mod("re", compile=N("re.compile", rx.compile_),
                    IGNORECASE=int(_pyre.IGNORECASE), I=int(_pyre.IGNORECASE), MULTILINE=int(_pyre.MULTILINE), DOTALL=int(_pyre.DOTALL),
                    VERBOSE=int(_pyre.VERBOSE), ASCII=int(_pyre.ASCII),
                    fullmatch=N("re.fullmatch", lambda p, s_, flags=0: rx.fullmatch(rx.compile_(p, flags), s_)),
                    match=N("re.match", lambda p, s_, flags=0: rx.match(rx.compile_(p, flags), s_)),
                    search=N("re.search", lambda p, s_, flags=0: rx.search(rx.compile_(p, flags), s_)))
    if name == "time":
        def _time():
            raise OutOfReach("time.time()")
        return _mod("time", time=N("time.time", _time))
    if name == "datetime":
        def timedelta(**kw):
            axiom("datetime(1970,1,1) + timedelta(microseconds=n) raises OverflowError unless the result is within year 1..9999; "
                  "otherwise the value is opaque (never inspected by a contract)")
            st = IStub("datetime.timedelta", "opaque")
            st.us = kw.get("microseconds", 0)
            if set(kw) - {"microseconds"}:
                raise OutOfReach("timedelta arguments other than microseconds")
            if ops.is_sym(st.us):
                if not ctx().branch(z3.And(T(st.us) <= 86399999999999999999, T(st.us) >= -86399999913600000000)):
                    raise OverflowError("days out of range")
            elif not (-86399999913600000000 <= st.us <= 86399999999999999999):
                raise OverflowError("days out of range")
            return st
        return _mod("datetime", datetime=IStub("datetime.datetime", "opaque"), timedelta=N("datetime.timedelta", timedelta))
    if name == "string":
        import string
        return _mod("string", ascii_letters=string.ascii_letters, digits=string.digits, punctuation=string.punctuation)
    if name in ("sys", "warnings", "enum", "collections", "abc", "copy", "json", "math"):
        raise OutOfReach(f"import of unmodelled module {name}")
    return None


def _ipaddress_module(interp):
    import ipaddress as _ip
    IPV4 = IClass("IPv4Address", [OBJECT], {})

    def construct(i, cls, args, kwargs):
        axiom("ipaddress.IPv4Address(x): accepts a dotted quad str, an int < 2**32 or 4 packed bytes; "
              ".packed is the 4 bytes big-endian, .exploded the dotted quad")
        v = args[0]
        if not ops.is_sym(v):
            if isinstance(v, (IObj, IClass, list, dict, tuple)) or v is None:
                raise EXC_NATIVE_ADDR(f"{v!r} does not appear to be an IPv4 address")
            try:
                a = _ip.IPv4Address(v)
            except _ip.AddressValueError as e:
                raise EXC_NATIVE_ADDR(str(e))
            return IObj(IPV4, {"packed": a.packed, "exploded": a.exploded, "_int": int(a)})
        if isinstance(v, SAny):
            ops.any_op("IPv4Address")
            raise OutOfReach("IPv4Address of unknown value")
        if isinstance(v, Rope) and v.kind == "bytes":
            if not ctx().branch(rope_len_term(v) == 4):
                raise EXC_NATIVE_ADDR("Address must be 4 bytes")
            octs = [rope_index_term(v, k) for k in range(4)]
            quad = None
            for k, o in enumerate(octs):
                part = mk_rope("str", [BN(o)])
                quad = part if quad is None else rope_concat(rope_concat(quad, "."), part)
            return IObj(IPV4, {"packed": v, "exploded": quad, "_octets": octs})
        if isinstance(v, Rope) and v.kind == "str":
            # constructed dotted quad: BN . BN . BN . BN with each 0..255
            parts = strs.rope_split(v, ".") if not any(isinstance(c_, BS) and 46 not in c_.base.free_of for c_ in v.chunks) else None
            if parts is None:
                raise OutOfReach("IPv4Address of unconstrained symbolic string")
            if len(parts) != 4:
                raise EXC_NATIVE_ADDR("Expected 4 octets")
            octs = []
            for p in parts:
                pr = to_rope(p)
                if len(pr.chunks) == 1 and isinstance(pr.chunks[0], BN):
                    t = pr.chunks[0].val
                    if not ctx().branch(t <= 255):
                        raise EXC_NATIVE_ADDR("Octet > 255 not permitted")
                    octs.append(t)
                else:
                    pc = rope_concrete(pr)
                    if pc is None:
                        raise OutOfReach("IPv4 octet of symbolic non-numeral")
                    if not (pc.isascii() and pc.isdigit()) or len(pc) > 3 or int(pc) > 255 or (len(pc) > 1 and pc[0] == "0"):
                        raise EXC_NATIVE_ADDR("bad octet")
                    octs.append(I(int(pc)))
            return IObj(IPV4, {"packed": mk_rope("bytes", [BL(octs)]), "exploded": v, "_octets": octs})
        if isinstance(v, SInt):
            raise OutOfReach("IPv4Address of symbolic int")
        raise EXC_NATIVE_ADDR("bad address")
    IPV4.ns["__construct__"] = construct
    IPV4.native = True

    def ip_address(v):
        if not ops.is_sym(v):
            try:
                a = _ip.ip_address(v)
            except ValueError as e:
                raise ValueError(str(e))
            return IObj(IPV4, {"packed": a.packed, "exploded": a.exploded})
        try:
            return construct(interp, IPV4, [v], {})
        except EXC_NATIVE_ADDR as e:
            raise ValueError(f"does not appear to be an IPv4 or IPv6 address")
    return _mod("ipaddress", IPv4Address=IPV4, ip_address=INative("ipaddress.ip_address", ip_address),
                AddressValueError=EXC["ipaddress.AddressValueError"])


class EXC_NATIVE_ADDR(ValueError):
    pass


EXC_NATIVE_ADDR.__name__ = "AddressValueError"
