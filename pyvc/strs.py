"""pyvc.strs -- str / bytes method models over ropes (constructed-term strings)."""
import z3

from .sym import (Rope, BL, BS, BR, BN, BX, T, I, mk_int, mk_bool, simp, const_of, ctx, OutOfReach, to_rope,
                  mk_rope, rope_len_term, rope_concrete, rope_index_term, chunk_may_contain, _rope_cut, SInt,
                  rope_concat, Base)


def _cps(lit):
    return [ord(c) for c in lit] if isinstance(lit, str) else list(lit)


def _lit_items(ch):
    """concrete element list of a BL chunk or None"""
    out = []
    for it in ch.items:
        c = it if isinstance(it, int) else const_of(it)
        if c is None:
            return None
        out.append(c)
    return out


def rope_split(r, sep, maxsplit=-1, from_right=False):
    r = to_rope(r)
    if from_right and maxsplit != 1:
        raise OutOfReach("rsplit with maxsplit != 1 on symbolic string")
    seps = _cps(sep)
    if len(seps) == 0:
        raise ValueError("empty separator")
    parts = [[]]
    cut_positions = []  # indexes into `parts` boundaries, for rsplit handling
    if len(seps) == 1:
        sc = seps[0]
        for ch in r.chunks:
            may = chunk_may_contain(ch, sc)
            if may is False:
                parts[-1].append(ch)
            elif isinstance(ch, BL):
                cur = []
                for it in ch.items:
                    c = it if isinstance(it, int) else const_of(it)
                    if c is None:
                        if ctx().branch(T(it) == sc):
                            c = sc
                        else:
                            c = -1
                    if c == sc:
                        if cur:
                            parts[-1].append(BL(cur))
                        cur = []
                        parts.append([])
                    else:
                        cur.append(it)
                if cur:
                    parts[-1].append(BL(cur))
            else:
                raise OutOfReach(f"split({sep!r}) over a chunk that may contain the separator: {ch!r}")
    else:
        # multi-char separator: only inside fully literal ropes, or when no symbolic chunk can contain its first char
        for ch in r.chunks:
            if isinstance(ch, BL):
                items = _lit_items(ch)
                if items is None:
                    raise OutOfReach("multi-char split over symbolic literal")
                i = 0
                cur = []
                while i < len(items):
                    if items[i:i + len(seps)] == seps:
                        if cur:
                            parts[-1].append(BL(cur))
                        cur = []
                        parts.append([])
                        i += len(seps)
                    else:
                        cur.append(items[i])
                        i += 1
                if cur:
                    parts[-1].append(BL(cur))
            else:
                if any(chunk_may_contain(ch, c) is not False for c in (seps[0], seps[-1])):
                    raise OutOfReach("multi-char split over symbolic chunk")
                parts[-1].append(ch)
    ropes = [mk_rope(r.kind, p) for p in parts]
    if maxsplit is not None and maxsplit >= 0 and len(ropes) - 1 > maxsplit:
        sep_r = to_rope(sep)
        if from_right:
            head = ropes[:len(ropes) - maxsplit]
            tail = ropes[len(ropes) - maxsplit:]
            joined = head[0]
            for h in head[1:]:
                joined = rope_concat(rope_concat(joined, sep), h)
            ropes = [joined] + tail
        else:
            head = ropes[:maxsplit]
            tail = ropes[maxsplit:]
            joined = tail[0]
            for h in tail[1:]:
                joined = rope_concat(rope_concat(joined, sep), h)
            ropes = head + [joined]
    return ropes


def rope_find(r, lit):
    r = to_rope(r)
    cps = _cps(lit)
    if len(cps) != 1:
        raise OutOfReach("find of multi-char needle in symbolic string")
    sc = cps[0]
    off = I(0)
    for ch in r.chunks:
        may = chunk_may_contain(ch, sc)
        if may is False:
            off = simp(off + ch.length())
            continue
        if isinstance(ch, BL):
            for k, it in enumerate(ch.items):
                c = it if isinstance(it, int) else const_of(it)
                if c is None:
                    if ctx().branch(T(it) == sc):
                        return mk_int(off + k)
                elif c == sc:
                    return mk_int(off + k)
            off = simp(off + ch.length())
            continue
        raise OutOfReach(f"find({lit!r}) over chunk that may contain it: {ch!r}")
    return -1


def rope_startswith(r, lit):
    r = to_rope(r)
    cps = _cps(lit)
    n = len(cps)
    if n == 0:
        return True
    for cp in set(cps):
        if all(chunk_may_contain(ch, cp) is False for ch in r.chunks):
            return False
    ln = rope_len_term(r)
    cl = const_of(ln)
    if cl is not None and cl < n:
        return False
    conj = [ln >= n]
    for i, cp in enumerate(cps):
        conj.append(z3.Implies(ln > i, rope_index_term(r, I(i)) == cp))
    return mk_bool(z3.And(*conj))


def rope_endswith(r, lit):
    r = to_rope(r)
    cps = _cps(lit)
    n = len(cps)
    if n == 0:
        return True
    for cp in set(cps):
        if all(chunk_may_contain(ch, cp) is False for ch in r.chunks):
            return False
    # literal tail fast path
    if r.chunks and isinstance(r.chunks[-1], BL):
        items = _lit_items(r.chunks[-1])
        if items is not None and len(items) >= n:
            return items[-n:] == cps
    ln = rope_len_term(r)
    cl = const_of(ln)
    if cl is not None and cl < n:
        return False
    conj = [ln >= n]
    for i, cp in enumerate(cps):
        conj.append(z3.Implies(ln >= n, rope_index_term(r, simp(ln - n + i)) == cp))
    return mk_bool(z3.And(*conj))


def _atoms(x):
    """characters (int / term) and whole numerals of a str rope; anything else is out of reach"""
    out = []
    for ch in to_rope(x).chunks:
        if isinstance(ch, BL):
            for it in ch.items:
                k = it if isinstance(it, int) else const_of(it)
                out.append(("c", k if k is not None else T(it)))
        elif isinstance(ch, BN):
            k = const_of(ch.val)
            if k is not None:
                out.extend(("c", ord(d)) for d in str(k))
            else:
                out.append(("n", ch.val))
        else:
            raise OutOfReach("replace with a symbolic pattern over chunk %r" % (ch,))
    return out


def _from_atoms(kind, atoms):
    chunks, run = [], []
    for k, v in atoms:
        if k == "c":
            run.append(v)
        else:
            if run:
                chunks.append(BL(run))
                run = []
            chunks.append(BN(v))
    if run:
        chunks.append(BL(run))
    return mk_rope(kind, chunks)


def _atom_eq(x, y):
    """are two atoms the same text -> python bool (forks when undetermined); mixed numeral / character is out of reach"""
    if x[0] != y[0]:
        cx = x if x[0] == "c" else y
        if isinstance(cx[1], int) and not (48 <= cx[1] <= 57):
            return False                    # a non-digit character is never (part of) a numeral
        raise OutOfReach("comparing a numeral with digit characters in replace")
    a, b = x[1], y[1]
    if isinstance(a, int) and isinstance(b, int):
        return a == b
    return ctx().branch(simp(T(a) == T(b)))


def _rope_replace_sym(r, a, b):
    """r.replace(a, b) where the pattern a is itself symbolic: characters and whole numerals are compared atom by atom.
    The pattern must start and end with a non-digit character (so that its ends cannot fall inside a numeral)."""
    R, A = _atoms(r), _atoms(a)
    Bt = _atoms(b)
    if not A:
        raise OutOfReach("replace of a possibly empty symbolic pattern")
    for end in (A[0], A[-1]):
        if end[0] != "c" or not isinstance(end[1], int) or 48 <= end[1] <= 57:
            raise OutOfReach("replace with a symbolic pattern that starts or ends with a digit or a symbolic character")
    out, i = [], 0
    while i < len(R):
        if i + len(A) <= len(R) and all(_atom_eq(R[i + k], A[k]) for k in range(len(A))):
            out.extend(Bt)
            i += len(A)
        else:
            out.append(R[i])
            i += 1
    return _from_atoms(to_rope(r).kind, out)


def rope_replace(r, a, b):
    r = to_rope(r)
    if isinstance(a, Rope) and not rope_concrete(a) or isinstance(b, Rope) and not rope_concrete(b):
        if r.kind != "str":
            raise OutOfReach("replace with a symbolic bytes pattern")
        return _rope_replace_sym(r, a, b)
    acp, bcp = _cps(a), _cps(b)
    if len(acp) == 0:
        raise OutOfReach("replace of empty pattern")
    out = []
    for ch in r.chunks:
        if isinstance(ch, BL):
            items = _lit_items(ch)
            if items is None:
                if len(acp) == 1 and all(chunk_may_contain(BL([it]), acp[0]) is not None for it in ch.items):
                    items = None
                if items is None and len(acp) == 1 and len(bcp) == 1:
                    # single char -> single char over symbolic elements: an ITE per element, no forking
                    out.append(BL([it if isinstance(it, int) and it != acp[0] else
                                   (bcp[0] if isinstance(it, int) else simp(z3.If(T(it) == acp[0], I(bcp[0]), T(it))))
                                   for it in ch.items]))
                    continue
                if items is None:
                    # branch per symbolic element
                    new = []
                    for it in ch.items:
                        c = it if isinstance(it, int) else const_of(it)
                        if len(acp) != 1:
                            raise OutOfReach("multi-char replace over symbolic literal")
                        if c is None:
                            if ctx().branch(T(it) == acp[0]):
                                new.extend(bcp)
                            else:
                                new.append(it)
                        elif c == acp[0]:
                            new.extend(bcp)
                        else:
                            new.append(c)
                    out.append(BL(new))
                    continue
            i, new = 0, []
            while i < len(items):
                if items[i:i + len(acp)] == acp:
                    new.extend(bcp)
                    i += len(acp)
                else:
                    new.append(items[i])
                    i += 1
            out.append(BL(new))
        else:
            if len(acp) == 1:
                if chunk_may_contain(ch, acp[0]) is not False:
                    raise OutOfReach(f"replace({a!r}) over chunk that may contain it: {ch!r}")
            else:
                # a multi-char pattern cannot start or end inside this chunk if the chunk is free of
                # every char of the pattern; be conservative
                if any(chunk_may_contain(ch, c) is not False for c in acp):
                    # allow when the pattern contains a char absent from all symbolic chunks and the
                    # pattern could only match wholly inside literals: patterns ending with that char
                    absent = [c for c in acp if all(chunk_may_contain(x, c) is False for x in r.chunks
                                                    if not isinstance(x, BL))]
                    if not absent:
                        raise OutOfReach(f"multi-char replace({a!r}) over symbolic chunk {ch!r}")
                    # a straddling match would need the absent char inside a literal chunk adjacent
                    # to symbolic chars of the pattern; check literals do not contain proper
                    # prefixes/suffixes ending/starting at their borders
                    if not _no_straddle(r, acp):
                        raise OutOfReach(f"multi-char replace({a!r}) may straddle chunks")
            out.append(ch)
    return mk_rope(r.kind, out)


def _no_straddle(r, acp):
    """True if no occurrence of pattern acp can straddle a literal/symbolic chunk boundary."""
    chunks = r.chunks
    for k, ch in enumerate(chunks):
        if not isinstance(ch, BL):
            continue
        items = _lit_items(ch)
        if items is None:
            return False
        # pattern starting in this literal and running past its end
        if k + 1 < len(chunks):
            for s in range(1, len(acp)):
                if len(items) >= s and items[-s:] == acp[:s]:
                    # remaining acp[s:] must be impossible in following chunk
                    nxt = chunks[k + 1]
                    if chunk_may_contain(nxt, acp[s]) is not False:
                        return False
        # pattern ending in this literal having started before it
        if k > 0:
            for s in range(1, len(acp)):
                if len(items) >= s and items[:s] == acp[-s:]:
                    prv = chunks[k - 1]
                    if chunk_may_contain(prv, acp[-s - 1]) is not False:
                        return False
    # pattern wholly inside a symbolic chunk or spanning two symbolic chunks
    for ch in chunks:
        if not isinstance(ch, BL):
            if all(chunk_may_contain(ch, c) is not False for c in acp):
                return False
    return True


def base_props(ch):
    if isinstance(ch, BS):
        return getattr(ch.base, "props", frozenset())
    return frozenset()


def rope_isdigit(r):
    r = to_rope(r)
    if not r.chunks:
        return False
    res = True
    conds = []
    for ch in r.chunks:
        if isinstance(ch, BN):
            continue
        if isinstance(ch, BL):
            for it in ch.items:
                c = it if isinstance(it, int) else const_of(it)
                if c is None:
                    conds.append(z3.And(T(it) >= 48, T(it) <= 57))
                elif not chr(c).isdigit():
                    return False
            continue
        p = base_props(ch)
        if "digits" in p:
            continue
        if "nondigit" in p:
            return False
        raise OutOfReach(f"isdigit over unconstrained chunk {ch!r}")
    if conds:
        return mk_bool(z3.And(*conds))
    return res


_numval = z3.Function("numval", z3.IntSort(), z3.IntSort())


def rope_int(r):
    r = to_rope(r)
    if len(r.chunks) == 1 and isinstance(r.chunks[0], BN):
        return mk_int(r.chunks[0].val)
    c = rope_concrete(r)
    if c is not None:
        return int(c)
    if not r.chunks:
        raise ValueError("invalid literal for int() with base 10: ''")
    if all(isinstance(ch, BN) or (isinstance(ch, BL) and _lit_items(ch) is not None
                                   and all(48 <= x <= 57 for x in _lit_items(ch))) for ch in r.chunks):
        raise OutOfReach("int() of concatenated numerals")
    for ch in r.chunks:
        p = base_props(ch)
        if "nondigit" in p:
            raise ValueError("invalid literal for int() with base 10")
        if isinstance(ch, BL):
            items = _lit_items(ch)
            if items is not None and any(chr(x) not in "0123456789+-_ \t\n\r\x0b\x0c" and not chr(x).isdigit() and not chr(x).isspace()
                                         for x in items):
                raise ValueError("invalid literal for int() with base 10")
    raise OutOfReach(f"int() of symbolic string {r!r}")


def rope_lower(r, upper=False):
    r = to_rope(r)
    out = []
    for ch in r.chunks:
        if isinstance(ch, BL):
            items = _lit_items(ch)
            if items is None:
                # symbolic elements: ASCII case mapping as a term (requires the element to be ASCII)
                new = []
                for it in ch.items:
                    cst = it if isinstance(it, int) else const_of(it)
                    if cst is not None:
                        m = chr(cst).upper() if upper else chr(cst).lower()
                        if len(m) != 1:
                            raise OutOfReach("length-changing case mapping")
                        new.append(ord(m))
                        continue
                    t = T(it)
                    if not ctx().is_true(z3.And(t >= 0, t < 128)):
                        raise OutOfReach("case mapping of a symbolic non-ASCII element")
                    if upper:
                        new.append(simp(z3.If(z3.And(t >= 97, t <= 122), t - 32, t)))
                    else:
                        new.append(simp(z3.If(z3.And(t >= 65, t <= 90), t + 32, t)))
                out.append(BL(new))
                continue
            s = "".join(chr(c) for c in items)
            s = s.upper() if upper else s.lower()
            out.append(BL([ord(c) for c in s]))
        elif isinstance(ch, BN):
            out.append(ch)
        elif isinstance(ch, BS) and ("caseless" in base_props(ch) or "digits" in base_props(ch)):
            out.append(ch)
        elif isinstance(ch, BS) and ("lower" in base_props(ch)) and not upper:
            out.append(ch)
        elif isinstance(ch, BX) and ch.key[0] == ("upper" if upper else "lower"):
            out.append(ch)
        elif isinstance(ch, BS):
            # case mapping of an opaque slice: opaque chunk keyed by the slice identity; str.lower is
            # length preserving for the code points the properties quantify over (ASCII / Latin-1 w/o U+00DF... )
            out.append(BX(("upper" if upper else "lower", ch.base.name, ch.lo.sexpr(), ch.hi.sexpr()), ch.length(),
                          {"free_of": frozenset(c for c in ch.base.free_of if not chr(c).isalpha())}))
        else:
            raise OutOfReach(f"case mapping over chunk {ch!r}")
    return mk_rope(r.kind, out)


def maxel_of(base):
    c = ctx()
    return c.ghost.get(("maxel", base.name), base.maxel)


_allle = {}


def all_le(base, limit):
    """uninterpreted predicate 'every element of base is <= limit' (branch both ways)."""
    key = (base.name, limit)
    if key not in _allle:
        _allle[key] = z3.Bool(f"all_le_{base.name}_{limit}")
    return _allle[key]


def rope_encode(r, encoding="utf-8", errors="strict"):
    """str rope -> bytes rope"""
    r = to_rope(r)
    enc = encoding.lower().replace("_", "-")
    if enc in ("iso-8859-1", "latin-1", "latin1", "iso8859-1"):
        limit = 255
    elif enc in ("ascii", "utf-8", "utf8"):
        limit = 127
    elif enc in ("utf-16-le", "utf-32-le"):
        return _encode_wide(r, enc)
    else:
        raise OutOfReach(f"encoding {encoding}")
    c = ctx()
    out = []
    for ch in r.chunks:
        if isinstance(ch, BN):
            out.append(ch)
            continue
        if isinstance(ch, BL):
            for it in ch.items:
                cst = it if isinstance(it, int) else const_of(it)
                if cst is None:
                    ok = c.branch(T(it) <= limit)
                else:
                    ok = cst <= limit
                if not ok:
                    if limit == 127 and enc.startswith("utf"):
                        raise OutOfReach("utf-8 encoding of non-ASCII symbolic element")
                    raise UnicodeEncodeError(enc, "?", 0, 1, "ordinal not in range")
            out.append(ch)
            continue
        if isinstance(ch, BS):
            if maxel_of(ch.base) <= limit:
                out.append(ch)
                continue
            whole = const_of(ch.lo) == 0 and simp(ch.hi - ch.base.len).eq(z3.IntVal(0))
            if c.is_true(ch.length() <= 8):
                # a short slice: decide per element (a character outside the slice must not matter)
                n = c.concretize(ch.length(), 0, 8, "slice length")
                items = [ch.base.sel(simp(ch.lo + k)) for k in range(n)]
                for it in items:
                    if not c.branch(it <= limit):
                        if limit == 127 and enc.startswith("utf"):
                            raise OutOfReach("utf-8 encoding of non-ASCII symbolic element")
                        raise UnicodeEncodeError(enc, "?", 0, 1, "ordinal not in range")
                if items:
                    out.append(BL(items))
                continue
            if c.branch(all_le(ch.base, limit)):
                c.ghost[("maxel", ch.base.name)] = limit
                out.append(ch)
                continue
            if limit == 127 and enc.startswith("utf"):
                # non-ASCII utf-8: opaque multi-byte encoding, at least as long as the text
                # not all elements <= 127: some character needs more than one byte, so the UTF-8 image is
                # strictly longer than the text (and the text is not empty)
                import hashlib
                ln = z3.Int("utf8len_" + ch.base.name + "_" + hashlib.md5((ch.lo.sexpr() + ":" + ch.hi.sexpr()).encode()).hexdigest()[:8])
                c.assume(z3.And(ln > ch.length(), ch.length() > 0, ln <= 4 * ch.length()))
                c.imprecise = True
                out.append(BX(("utf8", ch.base.name, ch.lo.sexpr(), ch.hi.sexpr()), ln))
                continue
            if c.is_true(ch.length() == 0):
                continue
            if not whole:
                raise OutOfReach("encoding a proper slice of a text that has unencodable characters somewhere")
            c.assume(ch.length() > 0)
            raise UnicodeEncodeError(enc, "?", 0, 1, "ordinal not in range")
        if isinstance(ch, BX) and ch.key[0] in ("lower", "upper", "fmt", "repr", "fstr"):
            out.append(ch)
            continue
        raise OutOfReach(f"encode over chunk {ch!r}")
    return mk_rope("bytes", out)


def _encode_wide(r, enc):
    width = 2 if enc == "utf-16-le" else 4
    limit = 0xFFFF if width == 2 else 0x10FFFF
    c = ctx()
    out = []
    for ch in r.chunks:
        if isinstance(ch, BL):
            items = []
            for it in ch.items:
                t = T(it)
                ok = c.branch(z3.And(t <= limit, z3.Or(t < 0xD800, t > 0xDFFF)))
                if not ok:
                    if c.branch(z3.And(t >= 0xD800, t <= 0xDFFF)):
                        raise UnicodeEncodeError(enc, "?", 0, 1, "surrogates not allowed")
                    raise OutOfReach("astral code point in utf-16")
                for k in range(width):
                    items.append(simp((t / I(256 ** k)) % 256))
            out.append(BL(items))
        elif isinstance(ch, BN):
            raise OutOfReach("wide encoding of numeral")
        elif isinstance(ch, BS):
            ok = all_le(ch.base, limit) if maxel_of(ch.base) > limit else True
            nosur = z3.Bool(f"no_surrogates_{ch.base.name}")
            if ok is not True and not c.branch(ok):
                raise OutOfReach("astral code points in utf-16 text")
            if not c.branch(nosur):
                c.assume(ch.length() > 0)
                raise UnicodeEncodeError(enc, "?", 0, 1, "surrogates not allowed")
            out.append(BX(("wide", enc, ch.base.name, ch.lo.sexpr(), ch.hi.sexpr()), simp(ch.length() * width),
                          {"src": ch, "enc": enc}))
        else:
            raise OutOfReach(f"wide encode over {ch!r}")
    return mk_rope("bytes", out)


def rope_decode(r, encoding="utf-8", errors="strict"):
    """bytes rope -> str rope"""
    r = to_rope(r)
    enc = encoding.lower().replace("_", "-")
    if enc in ("iso-8859-1", "latin-1", "latin1", "iso8859-1"):
        return mk_rope("str", r.chunks)
    if enc in ("ascii", "utf-8", "utf8"):
        c = ctx()
        out = []
        for ch in r.chunks:
            if isinstance(ch, BL):
                for it in ch.items:
                    cst = it if isinstance(it, int) else const_of(it)
                    ok = (cst <= 127) if cst is not None else c.branch(T(it) <= 127)
                    if not ok:
                        if errors == "replace" or enc != "ascii":
                            raise OutOfReach("non-ASCII utf-8 decode")
                        raise UnicodeDecodeError(enc, b"?", 0, 1, "ordinal not in range")
                out.append(ch)
            elif isinstance(ch, BS):
                if maxel_of(ch.base) <= 127 or c.branch(all_le(ch.base, 127)):
                    c.ghost[("maxel", ch.base.name)] = min(127, maxel_of(ch.base))
                    out.append(ch)
                elif errors == "replace" or enc != "ascii":
                    ln = c.fresh_int("declen")
                    c.assume(z3.And(ln >= 0, ln <= ch.length()))
                    c.imprecise = True
                    out.append(BX(("utf8dec", ch.base.name, ch.lo.sexpr(), ch.hi.sexpr(), errors), ln))
                else:
                    c.assume(ch.length() > 0)
                    raise UnicodeDecodeError(enc, b"?", 0, 1, "ordinal not in range")
            elif isinstance(ch, (BN,)):
                out.append(ch)
            elif isinstance(ch, BR):
                out.append(ch)
            else:
                raise OutOfReach(f"decode over {ch!r}")
        return mk_rope("str", out)
    if enc in ("utf-16-le", "utf-32-le"):
        width = 2 if enc == "utf-16-le" else 4
        out = []
        c = ctx()
        for ch in r.chunks:
            if isinstance(ch, BX) and ch.key[0] == "wide" and ch.key[1] == enc:
                out.append(ch.info["src"])
            elif isinstance(ch, BL) and len(ch.items) % width == 0:
                items = []
                for k in range(0, len(ch.items), width):
                    t = I(0)
                    for j in range(width):
                        t = t + T(ch.items[k + j]) * I(256 ** j)
                    t = simp(t)
                    if not c.branch(z3.And(t <= 0x10FFFF, z3.Or(t < 0xD800, t > 0xDFFF))):
                        if width == 2:
                            raise OutOfReach("surrogate code unit in utf-16 decode")
                        raise UnicodeDecodeError(enc, b"?", 0, 1, "code point not in range")
                    items.append(t)
                out.append(BL(items))
            else:
                raise OutOfReach(f"{enc} decode over {ch!r}")
        return mk_rope("str", out)
    raise OutOfReach(f"decoding {encoding}")


def rope_join(sep, items):
    out = None
    for it in items:
        if out is None:
            out = it
        else:
            out = rope_concat(rope_concat(out, sep), it)
    if out is None:
        return sep[:0] if not isinstance(sep, Rope) else mk_rope(sep.kind, [])
    if isinstance(out, Rope) or isinstance(sep, Rope):
        if to_rope(out).kind != to_rope(sep).kind:
            raise TypeError("sequence item: expected matching str/bytes")
    return out
