"""pyvc.sym -- symbolic values, ropes (bytes / str), path context.

Integers are mathematical (z3 Int).  A bytes / str value is a *rope*: a
concatenation of chunks, each either a literal list of element terms (BL), a
slice of a named base sequence (BS), a repetition (BR), a decimal numeral (BN,
str only) or an opaque chunk with structural identity (BX).  Most sequence
reasoning therefore reaches the solver as linear integer side conditions.
"""
import itertools
import z3

I = z3.IntVal


class OutOfReach(Exception):
    """The engine cannot translate something; never a verdict."""


class PathAbort(Exception):
    """Current path became infeasible (assumption contradicts path condition)."""


class PathBudget(OutOfReach):
    pass


# ----------------------------------------------------------------------------
# scalar symbolic values
# ----------------------------------------------------------------------------
class Sym:
    __slots__ = ()


class SInt(Sym):
    __slots__ = ("t",)

    def __init__(self, t):
        self.t = t

    def __repr__(self):
        return f"SInt({self.t})"

    def __hash__(self):
        raise OutOfReach("hash of symbolic int")


class SBool(Sym):
    __slots__ = ("t",)

    def __init__(self, t):
        self.t = t

    def __repr__(self):
        return f"SBool({self.t})"


class SAny(Sym):
    """A value of unknown Python type: every operation may raise or yield another SAny."""
    __slots__ = ("name",)

    def __init__(self, name):
        self.name = name

    def __repr__(self):
        return f"SAny({self.name})"


class SFloat(Sym):
    """A Python float (binary64) as an uninterpreted real-valued token; only identity,
    packing through the f32/f64 axioms and NaN-ness are modelled."""
    __slots__ = ("t",)

    def __init__(self, t):
        self.t = t

    def __repr__(self):
        return f"SFloat({self.t})"


def simp(t):
    return z3.simplify(t)


def T(x):
    """python int / bool / SInt / SBool -> z3 Int term."""
    if isinstance(x, bool):
        return I(1 if x else 0)
    if isinstance(x, int):
        return I(x)
    if isinstance(x, SInt):
        return x.t
    if isinstance(x, SBool):
        return z3.If(x.t, I(1), I(0))
    if z3.is_expr(x):
        return x
    raise OutOfReach(f"not an int-like value: {type(x).__name__}")


def const_of(t):
    """z3 int term -> python int if it simplifies to a numeral, else None."""
    if isinstance(t, int):
        return t
    t = simp(t)
    if z3.is_int_value(t):
        return t.as_long()
    return None


def mk_int(t):
    """z3 term -> python int when constant, else SInt."""
    if isinstance(t, int):
        return t
    t = simp(t)
    if z3.is_int_value(t):
        return t.as_long()
    return SInt(t)


def mk_bool(t):
    if isinstance(t, bool):
        return t
    t = simp(t)
    if z3.is_true(t):
        return True
    if z3.is_false(t):
        return False
    return SBool(t)


def B(x):
    """python bool / SBool -> z3 Bool."""
    if isinstance(x, bool):
        return z3.BoolVal(x)
    if isinstance(x, SBool):
        return x.t
    if z3.is_expr(x) and z3.is_bool(x):
        return x
    raise OutOfReach(f"not a bool-like value: {type(x).__name__}")


def is_intlike(x):
    return isinstance(x, (int, SInt, SBool)) and not isinstance(x, float)


# ----------------------------------------------------------------------------
# path context
# ----------------------------------------------------------------------------
class PathCtx:
    """One execution path.  Decisions are replayed from `prefix`; new symbolic branches
    are decided by feasibility and recorded so the explorer can flip them later."""

    def __init__(self, prefix=(), rlimit=0, timeout_ms=20000, max_decisions=4000):
        self.prefix = list(prefix)
        self.trace = []            # list of [taken, flippable]
        self.pc = []               # list of z3 Bool
        self.solver = z3.Solver()
        self.solver.set("timeout", timeout_ms)
        if rlimit:
            self.solver.set("rlimit", rlimit)
        self.counter = itertools.count()
        self.names = {}
        self.inputs = {}           # name -> description for model extraction
        self.max_decisions = max_decisions
        self.solver_calls = 0
        self.notes = []            # engine notes (lemmas used, over-approximations)
        self.imprecise = False     # set when a havoc / over-approximation happened
        self.nofork = 0            # >0: speculative (merge) mode, forks not allowed
        self.ghost = {}
        self.soft = []             # preferences for small counter-models (never part of a proof)
        self.ranges = {}           # z3 const id -> [lo, hi] known from the path condition (syntactic facts only)

    # -- fresh symbols ---------------------------------------------------
    def fresh_name(self, hint):
        n = self.names.get(hint, 0)
        self.names[hint] = n + 1
        return hint if n == 0 else f"{hint}!{n}"

    def fresh_int(self, hint="i"):
        return z3.Int(self.fresh_name(hint))

    def fresh_bool(self, hint="b"):
        return z3.Bool(self.fresh_name(hint))

    # -- assumptions / queries -----------------------------------------
    def assume(self, cond):
        if isinstance(cond, bool):
            if not cond:
                raise PathAbort()
            return
        cond = B(cond)
        cond = simp(cond)
        if z3.is_true(cond):
            return
        if z3.is_false(cond):
            raise PathAbort()
        self.pc.append(cond)
        self.solver.add(cond)
        self.note_fact(cond)

    def note_fact(self, cond):
        """record simple range facts  x <= c / x >= c / x == c  (x an uninterpreted constant) for the interval analysis"""
        if not z3.is_app(cond):
            return
        k = cond.decl().kind()
        if k == z3.Z3_OP_AND:
            for i in range(cond.num_args()):
                self.note_fact(cond.arg(i))
            return
        neg = False
        if k == z3.Z3_OP_NOT:
            inner = cond.arg(0)
            if not z3.is_app(inner):
                return
            k2 = inner.decl().kind()
            flip = {z3.Z3_OP_LE: z3.Z3_OP_GT, z3.Z3_OP_GE: z3.Z3_OP_LT, z3.Z3_OP_LT: z3.Z3_OP_GE, z3.Z3_OP_GT: z3.Z3_OP_LE}
            if k2 not in flip:
                return
            k, cond = flip[k2], inner
        if k not in (z3.Z3_OP_LE, z3.Z3_OP_GE, z3.Z3_OP_LT, z3.Z3_OP_GT, z3.Z3_OP_EQ) or cond.num_args() != 2:
            return
        a, b = cond.arg(0), cond.arg(1)
        if not (z3.is_int(a) and z3.is_int(b)):
            return
        if z3.is_int_value(a) and not z3.is_int_value(b):
            a, b = b, a
            k = {z3.Z3_OP_LE: z3.Z3_OP_GE, z3.Z3_OP_GE: z3.Z3_OP_LE, z3.Z3_OP_LT: z3.Z3_OP_GT, z3.Z3_OP_GT: z3.Z3_OP_LT,
                 z3.Z3_OP_EQ: z3.Z3_OP_EQ}[k]
        if not z3.is_int_value(b) or not (z3.is_const(a) and a.decl().kind() == z3.Z3_OP_UNINTERPRETED):
            return
        c = b.as_long()
        r = self.ranges.setdefault(a.get_id(), [None, None])
        if k == z3.Z3_OP_LE:
            r[1] = c if r[1] is None else min(r[1], c)
        elif k == z3.Z3_OP_LT:
            r[1] = c - 1 if r[1] is None else min(r[1], c - 1)
        elif k == z3.Z3_OP_GE:
            r[0] = c if r[0] is None else max(r[0], c)
        elif k == z3.Z3_OP_GT:
            r[0] = c + 1 if r[0] is None else max(r[0], c + 1)
        else:
            r[0] = c if r[0] is None else max(r[0], c)
            r[1] = c if r[1] is None else min(r[1], c)

    def quick(self, cond):
        """True / False when the interval analysis decides cond, else None"""
        if not z3.is_app(cond):
            return None
        k = cond.decl().kind()
        if k == z3.Z3_OP_NOT:
            r = self.quick(cond.arg(0))
            return None if r is None else (not r)
        if k == z3.Z3_OP_AND:
            res = True
            for i in range(cond.num_args()):
                r = self.quick(cond.arg(i))
                if r is False:
                    return False
                if r is None:
                    res = None
            return res
        if k == z3.Z3_OP_OR:
            res = False
            for i in range(cond.num_args()):
                r = self.quick(cond.arg(i))
                if r is True:
                    return True
                if r is None:
                    res = None
            return res
        if k in (z3.Z3_OP_LE, z3.Z3_OP_GE, z3.Z3_OP_LT, z3.Z3_OP_GT, z3.Z3_OP_EQ, z3.Z3_OP_DISTINCT) and cond.num_args() == 2:
            a, b = cond.arg(0), cond.arg(1)
            if not (z3.is_int(a) and z3.is_int(b)):
                return None
            lo, hi = bounds(simp(a - b))
            if k == z3.Z3_OP_LE:
                return True if (hi is not None and hi <= 0) else (False if (lo is not None and lo > 0) else None)
            if k == z3.Z3_OP_LT:
                return True if (hi is not None and hi < 0) else (False if (lo is not None and lo >= 0) else None)
            if k == z3.Z3_OP_GE:
                return True if (lo is not None and lo >= 0) else (False if (hi is not None and hi < 0) else None)
            if k == z3.Z3_OP_GT:
                return True if (lo is not None and lo > 0) else (False if (hi is not None and hi <= 0) else None)
            if k == z3.Z3_OP_EQ:
                if (lo is not None and lo > 0) or (hi is not None and hi < 0):
                    return False
                return True if (lo == 0 and hi == 0) else None
            if k == z3.Z3_OP_DISTINCT:
                if (lo is not None and lo > 0) or (hi is not None and hi < 0):
                    return True
                return False if (lo == 0 and hi == 0) else None
        return None

    def check_sat(self, *extra):
        self.solver_calls += 1
        self.solver.push()
        try:
            for e in extra:
                self.solver.add(e)
            r = self.solver.check()
        finally:
            self.solver.pop()
        return r

    def feasible(self, cond):
        r = self.check_sat(cond)
        if r == z3.unknown:
            # treat unknown as feasible (over-approximation of paths is sound for proofs)
            return True
        return r == z3.sat

    def is_true(self, cond):
        """Does the path condition imply cond?  (unknown -> False)"""
        if isinstance(cond, bool):
            return cond
        cond = simp(B(cond))
        if z3.is_true(cond):
            return True
        if z3.is_false(cond):
            return False
        q = self.quick(cond)
        if q is not None:
            return q
        return self.check_sat(z3.Not(cond)) == z3.unsat

    def path_feasible(self):
        return self.check_sat() != z3.unsat

    # -- branching -----------------------------------------------------------
    def branch(self, cond):
        """Decide a symbolic condition; returns python bool and records path condition."""
        if isinstance(cond, bool):
            return cond
        if isinstance(cond, SBool):
            cond = cond.t
        cond = simp(cond)
        if z3.is_true(cond):
            return True
        if z3.is_false(cond):
            return False
        q = self.quick(cond)
        if q is not None:
            return q
        idx = len(self.trace)
        if idx < len(self.prefix):
            taken, flip = self.prefix[idx]
            self.trace.append([taken, flip])
        else:
            if self.nofork:
                raise _NoFork()
            if idx >= self.max_decisions:
                raise PathBudget("decision budget exhausted")
            can_t = self.feasible(cond)
            can_f = self.feasible(z3.Not(cond))
            if can_t and can_f:
                taken = True
                self.trace.append([True, True])
            elif can_t:
                taken = True
                self.trace.append([True, False])
            elif can_f:
                taken = False
                self.trace.append([False, False])
            else:
                raise PathAbort()
        c = cond if taken else simp(z3.Not(cond))
        self.pc.append(c)
        self.solver.add(c)
        self.note_fact(c)
        return taken

    def choose(self, n, hint="choice"):
        """Nondeterministic choice among n alternatives (0..n-1), all explored."""
        for k in range(n - 1):
            b = self.fresh_bool(f"{hint}_{k}")
            if self.branch(b):
                return k
        return n - 1

    def concretize(self, term, lo, hi, what="value"):
        """Fork over every integer value of term in [lo, hi]; returns python int."""
        c = const_of(term)
        if c is not None:
            return c
        if not self.is_true(z3.And(term >= lo, term <= hi)):
            raise OutOfReach(f"cannot bound {what} to [{lo},{hi}] for case split")
        for v in range(lo, hi):
            if self.branch(term == v):
                return v
        self.assume(term == hi)
        return hi


class _NoFork(Exception):
    pass


_CTX = [None]


def ctx():
    c = _CTX[0]
    if c is None:
        raise OutOfReach("symbolic operation outside a path context")
    return c


def set_ctx(c):
    _CTX[0] = c


# ----------------------------------------------------------------------------
# integer operations (python semantics)
# ----------------------------------------------------------------------------
def pow2_term(t):
    c = const_of(t)
    if c is not None:
        if c < 0:
            raise OutOfReach("negative shift")
        return I(1 << c)
    v = ctx().concretize(t, 0, 64, "shift amount")
    return I(1 << v)


def _runs(mask):
    """contiguous runs of set bits of a non-negative int: [(lo_bit, width)]"""
    runs, i = [], 0
    while mask >> i:
        if (mask >> i) & 1:
            j = i
            while (mask >> j) & 1:
                j += 1
            runs.append((i, j - i))
            i = j
        else:
            i += 1
    return runs


def bounds(t, depth=0):
    """cheap syntactic interval (lo, hi) of an int term; None components when unknown"""
    if isinstance(t, int):
        return t, t
    if depth > 80:
        return None, None
    if z3.is_int_value(t):
        v = t.as_long()
        return v, v
    k = t.decl().kind() if z3.is_app(t) else None
    if k == z3.Z3_OP_ITE:
        a, b = bounds(t.arg(1), depth + 1), bounds(t.arg(2), depth + 1)
        lo = None if a[0] is None or b[0] is None else min(a[0], b[0])
        hi = None if a[1] is None or b[1] is None else max(a[1], b[1])
        return lo, hi
    if k == z3.Z3_OP_ADD:
        lo = hi = 0
        for i in range(t.num_args()):
            a = bounds(t.arg(i), depth + 1)
            lo = None if lo is None or a[0] is None else lo + a[0]
            hi = None if hi is None or a[1] is None else hi + a[1]
        return lo, hi
    if k == z3.Z3_OP_MOD and z3.is_int_value(t.arg(1)) and t.arg(1).as_long() > 0:
        return 0, t.arg(1).as_long() - 1
    if k == z3.Z3_OP_MUL and t.num_args() == 2:
        for c, x in ((t.arg(0), t.arg(1)), (t.arg(1), t.arg(0))):
            if z3.is_int_value(c) and c.as_long() >= 0:
                a = bounds(x, depth + 1)
                m = c.as_long()
                return (None if a[0] is None else a[0] * m), (None if a[1] is None else a[1] * m)
    if k == z3.Z3_OP_IDIV and z3.is_int_value(t.arg(1)) and t.arg(1).as_long() > 0:
        a = bounds(t.arg(0), depth + 1)
        m = t.arg(1).as_long()
        return (None if a[0] is None else a[0] // m), (None if a[1] is None else a[1] // m)
    if k == z3.Z3_OP_SELECT:
        return 0, None
    if k == z3.Z3_OP_UNINTERPRETED and t.num_args() == 0:
        c = _CTX[0]
        if c is not None:
            r = c.ranges.get(t.get_id())
            if r is not None:
                return r[0], r[1]
    if k == z3.Z3_OP_SUB and t.num_args() == 2:
        a, b = bounds(t.arg(0), depth + 1), bounds(t.arg(1), depth + 1)
        lo = None if a[0] is None or b[1] is None else a[0] - b[1]
        hi = None if a[1] is None or b[0] is None else a[1] - b[0]
        return lo, hi
    if k == z3.Z3_OP_UMINUS:
        a = bounds(t.arg(0), depth + 1)
        return (None if a[1] is None else -a[1]), (None if a[0] is None else -a[0])
    if k == z3.Z3_OP_MUL and t.num_args() == 2:
        for c_, x in ((t.arg(0), t.arg(1)), (t.arg(1), t.arg(0))):
            if z3.is_int_value(c_) and c_.as_long() < 0:
                a = bounds(x, depth + 1)
                m = c_.as_long()
                return (None if a[1] is None else a[1] * m), (None if a[0] is None else a[0] * m)
    return None, None


def _byte_core(t):
    """t == ((u div d) mod 256**j) -> (u, d, j) ; (u mod 256**j) -> (u, 1, j); else None"""
    if not z3.is_app(t) or t.decl().kind() != z3.Z3_OP_MOD:
        return None
    m = t.arg(1)
    if not z3.is_int_value(m):
        return None
    mv, j = m.as_long(), 0
    while mv > 1 and mv % 256 == 0:
        mv //= 256
        j += 1
    if mv != 1 or j == 0:
        return None
    x = t.arg(0)
    if z3.is_app(x) and x.decl().kind() == z3.Z3_OP_IDIV and z3.is_int_value(x.arg(1)) and x.arg(1).as_long() > 0:
        return x.arg(0), x.arg(1).as_long(), j
    return x, 1, j


def recombine_bytes(t):
    """rewrite  sum_k 256^k * ((u div 256^k) mod 256)  (k = 0..m-1, possibly already partly combined) into u mod 256^m,
    and into u itself when the interval analysis knows 0 <= u < 256^m.  Exact for every integer u.
    A trailing  256^m * (u div 256^m)  completes the sum to u."""
    t = simp(t)
    if not z3.is_app(t) or t.decl().kind() != z3.Z3_OP_ADD:
        return t
    addends = [t.arg(i) for i in range(t.num_args())]
    groups = {}
    rest = []
    for a in addends:
        coef, core = 1, a
        if z3.is_app(a) and a.decl().kind() == z3.Z3_OP_MUL and a.num_args() == 2:
            if z3.is_int_value(a.arg(0)):
                coef, core = a.arg(0).as_long(), a.arg(1)
            elif z3.is_int_value(a.arg(1)):
                coef, core = a.arg(1).as_long(), a.arg(0)
        bc = _byte_core(core)
        if bc is not None and coef == bc[1]:
            groups.setdefault(bc[0].get_id(), (bc[0], {}, {}))[1][bc[1]] = (bc[2], a)
            continue
        # top part: coef * (u div coef)
        if (coef > 1 and z3.is_app(core) and core.decl().kind() == z3.Z3_OP_IDIV and z3.is_int_value(core.arg(1))
                and core.arg(1).as_long() == coef):
            groups.setdefault(core.arg(0).get_id(), (core.arg(0), {}, {}))[2][coef] = a
            continue
        rest.append(a)
    changed = False
    for uid, (u, parts, tops) in groups.items():
        d, used = 1, []
        while d in parts:
            j, a = parts[d]
            used.append(d)
            d = d * 256 ** j
        if len(used) >= 2 or (len(used) == 1 and d in tops):
            lo_b, hi_b = bounds(simp(u))
            if d in tops:
                rest.append(u)
                tops = dict(tops)
                del tops[d]
            elif lo_b is not None and hi_b is not None and lo_b >= 0 and hi_b < d:
                rest.append(u)
            else:
                rest.append(u % I(d))
            for dd, (j, a) in parts.items():
                if dd not in used:
                    rest.append(a)
            rest.extend(tops.values())
            changed = True
        else:
            rest.extend(a for (j, a) in parts.values())
            rest.extend(tops.values())
    if not changed:
        return t
    out = rest[0]
    for a in rest[1:]:
        out = out + a
    return simp(out)


def _bv_binop(op, ta, tb):
    """symbolic & / | of two non-negative terms bounded by 2**W: through bit-vectors of width W (exact)"""
    c = ctx()
    for w in (8, 16, 32, 64):
        lim = 1 << w
        la, ha = bounds(simp(ta))
        lb, hb = bounds(simp(tb))
        ok_a = (la is not None and ha is not None and la >= 0 and ha < lim) or c.is_true(z3.And(ta >= 0, ta < lim))
        ok_b = (lb is not None and hb is not None and lb >= 0 and hb < lim) or c.is_true(z3.And(tb >= 0, tb < lim))
        if ok_a and ok_b:
            x, y = z3.Int2BV(ta, w), z3.Int2BV(tb, w)
            r = z3.BV2Int(x & y if op == "&" else x | y, is_signed=False)
            c.notes.append("bit-vector encoding of a symbolic bit operation")
            return mk_int(r)
    raise OutOfReach(f"symbolic {op} symbolic on unbounded operands")


def int_and(a, b):
    if isinstance(a, int) and isinstance(b, int):
        return a & b
    if isinstance(a, int):
        a, b = b, a
    ta = T(a)
    cb = const_of(T(b))
    if cb is None:
        ca = const_of(ta)
        if ca is not None:
            return int_and(b, ca)
        return _bv_binop("&", ta, T(b))
    if cb >= 0:
        lo_b, hi_b = bounds(simp(ta))
        if lo_b is not None and hi_b is not None and lo_b >= 0 and (cb & (cb + 1)) == 0 and hi_b <= cb:
            return mk_int(ta)      # x & (2**k - 1) with 0 <= x < 2**k
        total = I(0)
        for lo, w in _runs(cb):
            total = total + ((ta / I(1 << lo)) % I(1 << w)) * I(1 << lo)
        return mk_int(total)
    # negative constant: x & ~m  ==  x - (x & m)   where m = ~cb >= 0
    m = ~cb
    inner = int_and(a, m)
    return mk_int(ta - T(inner))


def int_or(a, b):
    if isinstance(a, int) and isinstance(b, int):
        return a | b
    if isinstance(a, int):
        a, b = b, a
    cb = const_of(T(b))
    if cb is None:
        if const_of(T(a)) is not None:
            return int_or(b, const_of(T(a)))
        return _bv_binop("|", T(a), T(b))
    if cb < 0:
        raise OutOfReach("| with negative constant")
    ta = T(a)
    # cheap simplification when the bits are provably clear
    c = _CTX[0]
    if cb:
        low = (cb & -cb)
        lo_b, hi_b = bounds(simp(ta))
        if lo_b is not None and hi_b is not None and lo_b >= 0 and hi_b < low:
            return mk_int(ta + cb)
        if c is not None and c.nofork == 0 and c.is_true(z3.And(ta >= 0, ta < low)):
            return mk_int(ta + cb)
    return mk_int(ta + cb - T(int_and(a, cb)))


def int_xor(a, b):
    if isinstance(a, int) and isinstance(b, int):
        return a ^ b
    return mk_int(T(int_or(a, b)) - T(int_and(a, b)))


def int_shl(a, b):
    if isinstance(a, int) and isinstance(b, int):
        return a << b
    return mk_int(T(a) * pow2_term(T(b)))


def int_shr(a, b):
    if isinstance(a, int) and isinstance(b, int):
        return a >> b
    p2 = pow2_term(T(b))
    lo_b, hi_b = bounds(simp(T(a)))
    cp = const_of(p2)
    if cp is not None and lo_b is not None and hi_b is not None and lo_b >= 0 and hi_b < cp:
        return 0
    return mk_int(T(a) / p2)


def int_floordiv(a, b):
    cb = const_of(T(b))
    if cb is None:
        c = ctx()
        if c.is_true(T(b) > 0):
            return mk_int(T(a) / T(b))
        raise OutOfReach("division by a symbolic value not known positive")
    if cb == 0:
        raise ZeroDivisionError("integer division or modulo by zero")
    if cb > 0:
        lo_b, hi_b = bounds(simp(T(a)))
        if lo_b is not None and hi_b is not None and lo_b >= 0 and hi_b < cb:
            return 0
        return mk_int(T(a) / I(cb))
    # python floor division by negative constant: a // b == (-a) // (-b)
    return mk_int((-T(a)) / I(-cb))


def int_mod(a, b):
    cb = const_of(T(b))
    if cb is None:
        c = ctx()
        if c.is_true(T(b) > 0):
            return mk_int(T(a) % T(b))
        raise OutOfReach("modulo by a symbolic value not known positive")
    if cb == 0:
        raise ZeroDivisionError("integer division or modulo by zero")
    if cb > 0:
        lo_b, hi_b = bounds(simp(T(a)))
        if lo_b is not None and hi_b is not None and lo_b >= 0 and hi_b < cb:
            return mk_int(T(a))
        return mk_int(T(a) % I(cb))
    raise OutOfReach("modulo by negative constant")


def int_pow(a, b):
    if isinstance(a, int) and isinstance(b, int):
        return a ** b
    ca = const_of(T(a))
    if ca == 2:
        return mk_int(pow2_term(T(b)))
    cb = const_of(T(b))
    if cb is not None and 0 <= cb <= 4:
        r = I(1)
        for _ in range(cb):
            r = r * T(a)
        return mk_int(r)
    raise OutOfReach("symbolic power")


# ----------------------------------------------------------------------------
# ropes
# ----------------------------------------------------------------------------
class Base:
    """A named symbolic sequence of elements (bytes 0..255 or code points)."""
    _ids = itertools.count()

    def __init__(self, name, kind, length, maxel=None, free_of=frozenset(), nonempty=False, props=frozenset()):
        self.name = name
        self.props = frozenset(props)
        self.kind = kind                       # 'bytes' | 'str'
        self.arr = z3.Array(name, z3.IntSort(), z3.IntSort())
        self.len = length                      # z3 int term
        self.maxel = maxel if maxel is not None else (255 if kind == "bytes" else 0x10FFFF)
        self.free_of = frozenset(free_of)      # code points guaranteed absent
        self.nonempty = nonempty

    def sel(self, idx):
        t = z3.Select(self.arr, idx)
        c = _CTX[0]
        if c is not None:
            key = ("rng", self.name, simp(idx).get_id())
            if key not in c.ghost:
                c.ghost[key] = True
                rng = z3.And(t >= 0, t <= c.ghost.get(("maxel", self.name), self.maxel))
                c.pc.append(rng)
                c.solver.add(rng)
                for cp in sorted(self.free_of)[:12]:
                    ne = t != cp
                    c.pc.append(ne)
                    c.solver.add(ne)
        return t

    def __repr__(self):
        return f"Base({self.name})"


class BL:
    __slots__ = ("items",)

    def __init__(self, items):
        self.items = tuple(int(x) if isinstance(x, int) else T(x) for x in items)

    def length(self):
        return I(len(self.items))

    def __repr__(self):
        return f"BL{list(self.items)!r}"


class BS:
    __slots__ = ("base", "lo", "hi")

    def __init__(self, base, lo, hi):
        self.base, self.lo, self.hi = base, simp(T(lo)), simp(T(hi))

    def length(self):
        return simp(self.hi - self.lo)

    def __repr__(self):
        return f"BS({self.base.name}[{self.lo}:{self.hi}])"


class BR:
    __slots__ = ("elem", "count")

    def __init__(self, elem, count):
        self.elem, self.count = elem, simp(T(count))

    def length(self):
        return self.count

    def __repr__(self):
        return f"BR({self.elem}*{self.count})"


class BN:
    """decimal numeral of a non-negative integer term (str ropes only)."""
    __slots__ = ("val",)

    def __init__(self, val):
        self.val = simp(T(val))

    def length(self):
        return numlen(self.val)

    def __repr__(self):
        return f"BN({self.val})"


class BX:
    """opaque chunk with structural identity: key is a hashable tuple, length a term."""
    __slots__ = ("key", "len", "info")

    def __init__(self, key, length, info=None):
        self.key, self.len, self.info = key, simp(T(length)), info

    def length(self):
        return self.len

    def __repr__(self):
        return f"BX{self.key}"


_numlen = z3.Function("numlen", z3.IntSort(), z3.IntSort())


def numlen(v):
    c = const_of(v)
    if c is not None:
        return I(len(str(c)))
    t = _numlen(v)
    cx = _CTX[0]
    if cx is not None:
        key = ("numlen", v.get_id())
        if key not in cx.ghost:
            cx.ghost[key] = True
            ax = z3.And(t >= 1, z3.Implies(v < 10, t == 1), z3.Implies(v >= 10, t >= 2),
                        z3.Implies(z3.And(v >= 10, v < 100), t == 2),
                        z3.Implies(z3.And(v >= 100, v < 1000), t == 3),
                        z3.Implies(v >= 1000, t >= 4), t <= 20)
            cx.pc.append(ax)
            cx.solver.add(ax)
    return t


def term_eq(a, b):
    """syntactic (after simplification) equality of two z3 terms."""
    if a is b:
        return True
    return z3.eq(simp(a), simp(b)) or z3.is_true(simp(a == b))


def chunk_same(a, b):
    if type(a) is not type(b):
        return False
    if isinstance(a, BS):
        return a.base is b.base and term_eq(a.lo, b.lo) and term_eq(a.hi, b.hi)
    if isinstance(a, BL):
        return len(a.items) == len(b.items) and all(term_eq(T(x), T(y)) for x, y in zip(a.items, b.items))
    if isinstance(a, BR):
        return term_eq(T(a.elem), T(b.elem)) and term_eq(a.count, b.count)
    if isinstance(a, BN):
        return term_eq(a.val, b.val)
    if isinstance(a, BX):
        return a.key == b.key
    return False


class Rope(Sym):
    """immutable symbolic bytes / str"""
    __slots__ = ("kind", "chunks")

    def __init__(self, kind, chunks):
        self.kind = kind
        self.chunks = tuple(_normalize(chunks))

    def __repr__(self):
        return f"Rope<{self.kind}>{list(self.chunks)}"

    def __hash__(self):
        raise OutOfReach("hash of a symbolic bytes/str value")


def _normalize(chunks):
    out = []
    for ch in chunks:
        if isinstance(ch, BL):
            if not ch.items:
                continue
            if out and isinstance(out[-1], BL):
                out[-1] = BL(out[-1].items + ch.items)
                continue
        elif isinstance(ch, BS):
            if term_eq(ch.lo, ch.hi):
                continue
            if out and isinstance(out[-1], BS) and out[-1].base is ch.base and term_eq(out[-1].hi, ch.lo):
                out[-1] = BS(ch.base, out[-1].lo, ch.hi)
                continue
        elif isinstance(ch, BR):
            c = const_of(ch.count)
            if c is not None:
                if c <= 0:
                    continue
                if c <= 4096:
                    ch = BL([ch.elem] * c)
                    if out and isinstance(out[-1], BL):
                        out[-1] = BL(out[-1].items + ch.items)
                        continue
        elif isinstance(ch, BN):
            c = const_of(ch.val)
            if c is not None and c >= 0:
                ch = BL([ord(x) for x in str(c)])
                if out and isinstance(out[-1], BL):
                    out[-1] = BL(out[-1].items + ch.items)
                    continue
        elif isinstance(ch, BX):
            if const_of(ch.len) == 0:
                continue
        out.append(ch)
    return out


def to_rope(v):
    if isinstance(v, Rope):
        return v
    if isinstance(v, (bytes, bytearray)):
        return Rope("bytes", [BL(list(v))])
    if isinstance(v, str):
        return Rope("str", [BL([ord(c) for c in v])])
    raise OutOfReach(f"not a bytes/str value: {type(v).__name__}")


def rope_concrete(r):
    """Rope -> python bytes / str if fully concrete else None."""
    if not isinstance(r, Rope):
        return r
    vals = []
    for ch in r.chunks:
        if not isinstance(ch, BL):
            return None
        for it in ch.items:
            c = it if isinstance(it, int) else const_of(it)
            if c is None:
                return None
            vals.append(c)
    if r.kind == "bytes":
        try:
            return bytes(vals)
        except ValueError:
            return None
    return "".join(chr(c) for c in vals)


def mk_rope(kind, chunks):
    r = Rope(kind, chunks)
    c = rope_concrete(r)
    return r if c is None else c


def rope_len_term(r):
    r = to_rope(r)
    t = I(0)
    for ch in r.chunks:
        t = t + ch.length()
    return simp(t)


def rope_len(r):
    return mk_int(rope_len_term(r))


def rope_concat(a, b):
    a, b = to_rope(a), to_rope(b)
    if a.kind != b.kind:
        raise TypeError(f"can't concat {b.kind} to {a.kind}")
    return mk_rope(a.kind, a.chunks + b.chunks)


def _merge_adjacent_by_solver(chunks):
    """merge adjacent slices of one base when the solver proves hi1 == lo2."""
    c = _CTX[0]
    out = []
    for ch in chunks:
        if (c is not None and out and isinstance(ch, BS) and isinstance(out[-1], BS)
                and out[-1].base is ch.base and c.is_true(out[-1].hi == ch.lo)):
            out[-1] = BS(ch.base, out[-1].lo, ch.hi)
        else:
            out.append(ch)
    return out


def chunk_elem(ch, i):
    """element term of chunk ch at (z3 / int) offset i (assumed in range)."""
    if isinstance(ch, BL):
        ci = const_of(T(i))
        if ci is not None:
            return T(ch.items[ci])
        t = T(ch.items[-1])
        for k in range(len(ch.items) - 2, -1, -1):
            t = z3.If(T(i) == k, T(ch.items[k]), t)
        return t
    if isinstance(ch, BS):
        return ch.base.sel(simp(ch.lo + T(i)))
    if isinstance(ch, BR):
        return T(ch.elem)
    if isinstance(ch, BX):
        f = z3.Function("bx_" + "_".join(str(k) for k in ch.key if isinstance(k, (str, int)))[:60],
                        z3.IntSort(), z3.IntSort())
        return f(T(i))
    if isinstance(ch, BN):
        f = z3.Function("numdigit", z3.IntSort(), z3.IntSort(), z3.IntSort())
        return f(ch.val, T(i))
    raise OutOfReach("element of unknown chunk")


def rope_index_term(r, i):
    """element at offset term i of rope r (caller guarantees 0 <= i < len).  Chunk membership is resolved by the
    interval analysis where possible; what remains becomes an ITE chain (no forking)."""
    r = to_rope(r)
    if not r.chunks:
        raise OutOfReach("index into empty rope")
    c = _CTX[0]
    ti = simp(T(i))
    off = I(0)
    pending = []     # (condition, element) for chunks that may contain i
    last = None
    for k, ch in enumerate(r.chunks):
        n = ch.length()
        end = simp(off + n)
        d = simp(ti - off)
        cond = simp(ti < end)
        q = True if z3.is_true(cond) else (False if z3.is_false(cond) else (c.quick(cond) if c is not None else None))
        if q is False:
            off = end
            continue
        # index may be in this chunk
        cd = const_of(d)
        if isinstance(ch, BL) and cd is None:
            # unknown offset inside a literal: bound the offset if we can, else generic ITE inside chunk_elem
            pass
        el = chunk_elem(ch, cd if cd is not None else d) if not (isinstance(ch, BL) and cd is not None and not (0 <= cd < len(ch.items))) else None
        if el is None:
            off = end
            continue
        if q is True:
            pending.append((None, el))
            break
        pending.append((cond, el))
        off = end
    if not pending:
        raise OutOfReach("index outside rope")
    t = pending[-1][1]
    for cond, el in reversed(pending[:-1]):
        t = z3.If(cond, el, t)
    return simp(t)


def rope_getitem(r, i):
    """python r[i] for int-like i -> int (bytes) / 1-char str; raises IndexError natively."""
    r = to_rope(r)
    c = ctx()
    n = rope_len_term(r)
    ti = T(i)
    if not c.branch(z3.And(ti >= -n, ti < n)):
        raise IndexError("index out of range")
    if c.is_true(ti >= 0):
        idx = ti
    elif c.branch(ti >= 0):
        idx = ti
    else:
        idx = simp(ti + n)
    el = rope_index_term(r, idx)
    if r.kind == "bytes":
        return mk_int(el)
    return mk_rope("str", [BL([el])])


def _decide(cond):
    """decide a z3 condition on the current path (forks only when both outcomes are feasible)"""
    c = _CTX[0]
    cond = simp(cond)
    if z3.is_true(cond):
        return True
    if z3.is_false(cond):
        return False
    if c is None:
        raise OutOfReach("symbolic comparison outside a path context")
    return c.branch(cond)


def _clamp_one(n, v, default):
    if v is None:
        return default
    t = simp(T(v))
    if _decide(t < 0):
        t = simp(t + n)
        if _decide(t < 0):
            return I(0)
        return t
    if _decide(t > n):
        return n
    return t


def _clamp_bounds(n, lo, hi):
    """python slice clamping for step 1; returns (lo', hi') z3 terms with 0<=lo'<=hi'<=n (decided on the path)"""
    lo_t = _clamp_one(n, lo, I(0))
    hi_t = _clamp_one(n, hi, n)
    if _decide(hi_t < lo_t):
        hi_t = lo_t
    return simp(lo_t), simp(hi_t)


def rope_slice(r, lo, hi):
    """python r[lo:hi] (step 1)."""
    r = to_rope(r)
    n = rope_len_term(r)
    lo_t, hi_t = _clamp_bounds(n, lo, hi)
    return _rope_cut(r, lo_t, hi_t)


def _rope_cut(r, lo_t, hi_t):
    """sub-rope [lo_t, hi_t) with 0 <= lo_t <= hi_t <= len(r) as z3 terms; chunk relations are decided on the path."""
    c = _CTX[0]
    out = []
    off = I(0)
    lo_t, hi_t = simp(T(lo_t)), simp(T(hi_t))
    if term_eq(lo_t, hi_t):
        return mk_rope(r.kind, [])
    for ch in r.chunks:
        n = ch.length()
        end = simp(off + n)
        if _decide(hi_t <= off):
            break
        if _decide(lo_t >= end):
            off = end
            continue
        a = I(0) if _decide(lo_t <= off) else simp(lo_t - off)
        b = n if _decide(hi_t >= end) else simp(hi_t - off)
        if isinstance(ch, BS):
            out.append(BS(ch.base, simp(ch.lo + a), simp(ch.lo + b)))
        elif isinstance(ch, BR):
            out.append(BR(ch.elem, simp(b - a)))
        elif isinstance(ch, BL):
            ca, cb = const_of(a), const_of(b)
            if ca is None:
                ca = c.concretize(a, 0, len(ch.items), "slice bound")
            if cb is None:
                cb = c.concretize(b, 0, len(ch.items), "slice bound")
            if cb > ca:
                out.append(BL(ch.items[ca:cb]))
        elif isinstance(ch, (BN, BX)):
            if term_eq(a, I(0)) and term_eq(b, n):
                out.append(ch)
            elif _decide(z3.And(a == 0, b == n)):
                out.append(ch)
            elif _decide(b <= a):
                pass
            else:
                raise OutOfReach(f"partial slice of opaque chunk {ch!r}")
        off = end
    return mk_rope(r.kind, _merge_adjacent_by_solver(out))


def rope_eq(a, b):
    """exact python equality of two bytes/str values -> python bool or z3 Bool term."""
    a, b = to_rope(a), to_rope(b)
    if a.kind != b.kind:
        return False
    # strip common prefix / suffix of syntactically identical chunks
    ca, cb = list(a.chunks), list(b.chunks)
    while ca and cb and chunk_same(ca[0], cb[0]):
        ca.pop(0)
        cb.pop(0)
    while ca and cb and chunk_same(ca[-1], cb[-1]):
        ca.pop()
        cb.pop()
    if not ca and not cb:
        return True
    # chunks that are empty on this path (a symbolic slice whose length the path condition fixes at 0) do not take part
    cx = _CTX[0]
    if cx is not None and (len(ca) > 1 or len(cb) > 1):
        def nonempty(chs):
            out = []
            for ch in chs:
                ln = ch.length()
                if const_of(ln) is None and cx.is_true(ln == 0):
                    continue
                out.append(ch)
            return out
        ca2, cb2 = nonempty(ca), nonempty(cb)
        if len(ca2) != len(ca) or len(cb2) != len(cb):
            return rope_eq(Rope(a.kind, ca2), Rope(a.kind, cb2))
    ra, rb = Rope(a.kind, ca), Rope(a.kind, cb)
    la, lb = rope_len_term(ra), rope_len_term(rb)
    na, nb = const_of(la), const_of(lb)
    if na is not None and nb is not None and na != nb:
        return False
    # numerals
    if len(ca) == 1 and len(cb) == 1 and isinstance(ca[0], BN) and isinstance(cb[0], BN):
        return simp(ca[0].val == cb[0].val)
    for x, y in ((ca, rb), (cb, ra)):
        if len(x) == 1 and isinstance(x[0], BN):
            lit = rope_concrete(y)
            if lit is not None:
                if lit.isdigit() and lit.isascii() and (lit == "0" or not lit.startswith("0")):
                    return simp(x[0].val == int(lit))
                return False
    if na is not None or nb is not None:
        n = na if na is not None else nb
        if n > 70000:
            raise OutOfReach("equality of very long sequences")
        conj = [la == lb] if (na is None or nb is None) else []
        for i in range(n):
            try:
                conj.append(rope_index_term(ra, i) == rope_index_term(rb, i))
            except OutOfReach as e:
                if "outside rope" in str(e):
                    return False      # position i provably lies beyond one side: the lengths differ
                raise
        return simp(z3.And(*conj)) if conj else True
    # both of symbolic length: same base, same start
    if (len(ca) == 1 and len(cb) == 1 and isinstance(ca[0], BS) and isinstance(cb[0], BS)
            and ca[0].base is cb[0].base and term_eq(ca[0].lo, cb[0].lo)):
        c = _CTX[0]
        p = (c.fresh_bool("seq_eq") if c else z3.Bool("seq_eq"))
        if c is not None:
            ax = z3.And(z3.Implies(ca[0].hi == cb[0].hi, p), z3.Implies(p, la == lb))
            c.pc.append(ax)
            c.solver.add(ax)
            c.notes.append("seq_eq over-approximation")
        return p
    # general symbolic-length case: quantifier-free over-approximation
    c = _CTX[0]
    if c is None:
        raise OutOfReach("symbolic sequence equality outside context")
    p = c.fresh_bool("seq_eq")
    ax = z3.Implies(p, la == lb)
    c.pc.append(ax)
    c.solver.add(ax)
    # elementwise agreement on the first few positions (sound consequence)
    for i in range(4):
        ax = z3.Implies(z3.And(p, la > i), rope_index_term(ra, I(i)) == rope_index_term(rb, I(i)))
        c.pc.append(ax)
        c.solver.add(ax)
    c.imprecise = True
    c.notes.append("general seq_eq over-approximation")
    return p


def chunk_may_contain(ch, cp):
    """could chunk contain code point cp?  returns True / False / None(unknown-symbolic-literal)."""
    if isinstance(ch, BL):
        res = False
        for it in ch.items:
            c = it if isinstance(it, int) else const_of(it)
            if c is None:
                return None
            if c == cp:
                res = True
        return res
    if isinstance(ch, BS):
        if cp in ch.base.free_of or cp > ch.base.maxel:
            return False
        return None
    if isinstance(ch, BN):
        return None if 48 <= cp <= 57 else False
    if isinstance(ch, BR):
        c = const_of(T(ch.elem))
        if c is None:
            return None
        return None if c == cp else False
    if isinstance(ch, BX):
        fo = (ch.info or {}).get("free_of", ())
        return False if cp in fo else None
    return None
