"""pyvc.interp -- loader and path-wise symbolic interpreter for the python subset of DESIGN 1.3.

The repository is only *parsed*; module bodies, class bodies and functions are executed by
this interpreter over mixed concrete / symbolic values (see sym.py, ops.py)."""
import ast
import os
import struct as _struct

import z3

from . import ops
from .objs import (PyRaise, _Return, _Break, _Continue, PathEnd, IModule, IClass, IObj, IFunc, IBound, IClassMethod,
                   IStaticMethod, IProperty, ISuper, INative, IStub, IIter, IGen, IByteArray, IStream, Env, MISSING)
from .sym import (Sym, SInt, SBool, SAny, SFloat, Rope, BL, BS, BX, BN, BR, T, B, I, mk_int, mk_bool, simp, const_of, ctx,
                  OutOfReach, PathAbort, _NoFork, to_rope, mk_rope, rope_len_term, rope_concrete, rope_concat)

NATIVE_EXC = (TypeError, ValueError, KeyError, IndexError, AttributeError, ZeroDivisionError, OverflowError,
              StopIteration, _struct.error, LookupError, NotImplementedError, OSError, AssertionError)

BINOPS = {ast.Add: "+", ast.Sub: "-", ast.Mult: "*", ast.FloorDiv: "//", ast.Mod: "%", ast.BitAnd: "&",
          ast.BitOr: "|", ast.BitXor: "^", ast.LShift: "<<", ast.RShift: ">>", ast.Pow: "**", ast.Div: "/",
          ast.MatMult: "@"}
CMPOPS = {ast.Lt: "<", ast.LtE: "<=", ast.Gt: ">", ast.GtE: ">="}


class Interp:
    def __init__(self, roots):
        """roots: {top_package_name: directory_containing_it}"""
        from . import lib
        self.roots = dict(roots)
        self.modules = {}
        self.lib = lib
        self.builtins = lib.make_builtins(self)
        self.exc = lib.EXC
        self.call_hook = None      # fn(interp, func, args, kwargs) -> NotImplemented or value
        self.loop_hook = None      # fn(interp, node, env, kind) -> NotImplemented or None (handled)
        self.frames = []           # stack of IFunc being executed
        self.max_call_depth = 60
        self.stats = {"calls": 0}
        self.source_cache = {}

    # ------------------------------------------------------------------ loading
    def find_module_file(self, name):
        parts = name.split(".")
        root = self.roots.get(parts[0])
        if root is None:
            return None, False
        base = os.path.join(root, *parts)
        if os.path.isdir(base) and os.path.exists(os.path.join(base, "__init__.py")):
            return os.path.join(base, "__init__.py"), True
        if os.path.exists(base + ".py"):
            return base + ".py", False
        return None, False

    def load_module(self, name):
        if name in self.modules:
            return self.modules[name]
        if name.endswith(".logger") and name.split(".")[0] in self.roots:
            # logging configuration is dropped by the extraction (DESIGN 1.3)
            m = IModule(name, {"__all__": ["configure_default_logger", "LOG_VERBOSE"], "LOG_VERBOSE": 5,
                               "configure_default_logger": IStub("configure_default_logger", "logger")})
            self.modules[name] = m
            return m
        libmod = self.lib.library_module(self, name)
        if libmod is not None:
            self.modules[name] = libmod
            return libmod
        path, is_pkg = self.find_module_file(name)
        if path is None:
            raise OutOfReach(f"import of unmodelled module {name}")
        if "." in name:
            self.load_module(name.rsplit(".", 1)[0])
        with open(path, encoding="utf-8") as f:
            src = f.read()
        tree = ast.parse(src, filename=path)
        self.source_cache[path] = src
        mod = IModule(name, {"__name__": name, "__file__": path}, path)
        mod.is_pkg = is_pkg
        mod.tree = tree
        self.modules[name] = mod
        env = Env(vars=mod.ns, glob=mod.ns)
        self._mod_of_env[id(mod.ns)] = mod
        self.exec_block(tree.body, env)
        return mod

    _mod_of_env = {}

    def module_of(self, env):
        return self._mod_of_env.get(id(env.glob))

    def resolve_relative(self, modname, level, env):
        cur = self.module_of(env)
        if level == 0:
            return modname
        pkg = cur.name if getattr(cur, "is_pkg", False) else cur.name.rsplit(".", 1)[0]
        for _ in range(level - 1):
            pkg = pkg.rsplit(".", 1)[0]
        return pkg + ("." + modname if modname else "")

    # ------------------------------------------------------------------ exceptions
    def make_exc(self, cls, *args):
        o = IObj(cls, {"args": tuple(args), "__cause__": None})
        return o

    def raise_(self, clsname, *args):
        raise PyRaise(self.make_exc(self.exc[clsname], *args))

    def from_native(self, e):
        name = type(e).__name__
        if isinstance(e, _struct.error):
            name = "struct.error"
        cls = self.exc.get(name)
        if cls is None:
            for k in type(e).__mro__:
                if k.__name__ in self.exc:
                    cls = self.exc[k.__name__]
                    break
        args = []
        for a in e.args:
            args.append(a if isinstance(a, (str, int, bytes, type(None))) or isinstance(a, Sym) else repr(a))
        return PyRaise(self.make_exc(cls, *args))

    # ------------------------------------------------------------------ statements
    def exec_block(self, stmts, env):
        for s in stmts:
            self.exec_stmt(s, env)

    def exec_stmt(self, node, env):
        m = getattr(self, "s_" + type(node).__name__, None)
        if m is None:
            raise OutOfReach(f"statement {type(node).__name__} at line {getattr(node, 'lineno', '?')}")
        return m(node, env)

    def s_Expr(self, node, env):
        if isinstance(node.value, ast.Constant):
            return  # docstring / ellipsis
        self.eval(node.value, env)

    def s_Pass(self, node, env):
        pass

    def s_Import(self, node, env):
        for a in node.names:
            mod = self.load_module(a.name)
            if a.asname:
                env.vars[a.asname] = mod
            else:
                top = a.name.split(".")[0]
                env.vars[top] = self.load_module(top)

    def s_ImportFrom(self, node, env):
        full = self.resolve_relative(node.module or "", node.level, env)
        mod = self.load_module(full)
        for a in node.names:
            if a.name == "*":
                names = mod.ns.get("__all__")
                if names is None:
                    names = [k for k in mod.ns if not k.startswith("_")]
                for k in names:
                    if k in mod.ns:
                        env.vars[k] = mod.ns[k]
                continue
            if a.name in mod.ns:
                v = mod.ns[a.name]
            else:
                sub = full + "." + a.name
                path, _ = self.find_module_file(sub)
                if path is None and self.lib.library_module(self, sub) is None:
                    if self.find_module_file(full)[0] is None:
                        # a library name the models do not cover: importing it is harmless, USING it is out of reach
                        env.vars[a.asname or a.name] = IStub(full + "." + a.name, "unmodelled")
                        continue
                    raise OutOfReach(f"cannot import name {a.name} from {full}")
                v = self.load_module(sub)
            env.vars[a.asname or a.name] = v

    def s_FunctionDef(self, node, env):
        fn = self.make_function(node, env)
        try:
            for dec in reversed(node.decorator_list):
                d = self.eval(dec, env)
                fn = self.call(d, [fn], {})
        except OutOfReach as e:
            # an unmodelled decorator: the module still loads; calling the decorated function is out of reach
            fn = IStub(f"{node.name} (decorated: {e})", "unmodelled")
        env.vars[node.name] = fn

    def make_function(self, node, env):
        args = node.args
        defaults = [self.eval(d, env) for d in args.defaults]
        kwdefaults = {a.arg: self.eval(d, env) for a, d in zip(args.kwonlyargs, args.kw_defaults) if d is not None}
        qual = self.qualname_for(getattr(node, "name", "<lambda>"), env)
        cenv = env.function_env() if env.is_class else env
        fn = IFunc(node, cenv, self.module_of(env), qual, defaults, kwdefaults)
        # private-name mangling is lexical: the class whose body (textually) contains the function
        if env.is_class:
            fn.lexcls = env.vars.get("__qualname__local__")
        else:
            e = env
            while e is not None and e.func is None:
                e = e.parent
            fn.lexcls = getattr(e.func, "lexcls", None) if e is not None else None
        return fn

    def qualname_for(self, name, env):
        parts = [name]
        e = env
        while e is not None:
            if e.is_class:
                parts.append(e.vars.get("__qualname__local__", "?"))
            elif e.func is not None:
                parts.append("<locals>")
                parts.append(e.func.name)
            e = e.parent
        mod = self.module_of(env)
        return (mod.name + "." if mod else "") + ".".join(reversed(parts))

    def s_ClassDef(self, node, env):
        bases = [self.eval(b, env) for b in node.bases]
        kw = {k.arg: self.eval(k.value, env) for k in node.keywords}
        meta = kw.get("metaclass")
        ns = {"__module__": self.module_of(env).name if self.module_of(env) else "?",
              "__qualname__local__": node.name}
        qual = self.qualname_for(node.name, env)
        ns["__qualname__"] = qual.split(".", self.module_of(env).name.count(".") + 1)[-1] if self.module_of(env) else qual
        cenv = Env(vars=ns, parent=env, glob=env.glob, is_class=True)
        self.exec_block(node.body, cenv)
        ns.pop("__qualname__local__", None)
        cls = self.build_class(node.name, bases, ns, meta, self.module_of(env), qual)
        for dec in reversed(node.decorator_list):
            cls = self.call(self.eval(dec, env), [cls], {})
        env.vars[node.name] = cls

    def build_class(self, name, bases, ns, meta, module, qualname):
        real_bases = []
        for b in bases:
            if isinstance(b, IStub) and b.name == "NamedTuple":
                return self.lib.make_namedtuple_class(self, name, ns, module, qualname)
            if isinstance(b, IStub):
                continue
            if not isinstance(b, IClass):
                raise OutOfReach(f"base class {b!r}")
            real_bases.append(b)
        if not real_bases:
            real_bases = [self.lib.OBJECT]
        if meta is None:
            for b in real_bases:
                if b.meta is not None:
                    if meta is None or (b.meta.issub(meta)):
                        meta = b.meta
        if meta is not None and meta.lookup("__new__") is not MISSING:
            new = meta.lookup("__new__")
            fn = new.func if isinstance(new, IStaticMethod) else new
            cls = self.call(fn, [meta, name, tuple(real_bases), ns], {})
            if isinstance(cls, IClass):
                cls.module = module
                cls.qualname = qualname
                self._bind_defcls(cls)
            return cls
        cls = IClass(name, real_bases, ns, meta=meta, module=module, qualname=qualname)
        self._bind_defcls(cls)
        return cls

    def _bind_defcls(self, cls):
        for v in cls.ns.values():
            f = v
            if isinstance(v, (IClassMethod, IStaticMethod)):
                f = v.func
            elif isinstance(v, IProperty):
                f = v.fget
            if isinstance(f, IFunc) and f.defcls is None:
                f.defcls = cls

    def s_Return(self, node, env):
        raise _Return(self.eval(node.value, env) if node.value is not None else None)

    def s_Break(self, node, env):
        raise _Break()

    def s_Continue(self, node, env):
        raise _Continue()

    def s_Assign(self, node, env):
        v = self.eval(node.value, env)
        for t in node.targets:
            self.assign(t, v, env)

    def s_AnnAssign(self, node, env):
        if env.is_class and isinstance(node.target, ast.Name):
            env.vars.setdefault("__annotations_order__", []).append(node.target.id)
        if node.value is not None:
            self.assign(node.target, self.eval(node.value, env), env)

    def s_AugAssign(self, node, env):
        op = BINOPS[type(node.op)]
        t = node.target
        if isinstance(t, ast.Name):
            cur = self.load_name(t.id, env)
            new = self.binop(op, cur, self.eval(node.value, env), inplace=True)
            if new is not cur or not isinstance(cur, list):
                env.vars[t.id] = new
        elif isinstance(t, ast.Attribute):
            obj = self.eval(t.value, env)
            cur = self.getattr_(obj, self.mangle(t.attr, env))
            new = self.binop(op, cur, self.eval(node.value, env), inplace=True)
            self.setattr_(obj, self.mangle(t.attr, env), new)
        elif isinstance(t, ast.Subscript):
            obj = self.eval(t.value, env)
            key = self.eval_slice(t.slice, env)
            cur = self.getitem(obj, key)
            new = self.binop(op, cur, self.eval(node.value, env), inplace=True)
            self.setitem(obj, key, new)
        else:
            raise OutOfReach("augmented assignment target")

    def binop(self, op, a, b, inplace=False):
        if inplace and isinstance(a, list) and op == "+":
            try:
                items = self.iter_list(b)
            except OutOfReach:
                raise
            a.extend(items)
            return a
        try:
            return ops.py_binop(op, a, b)
        except NATIVE_EXC as e:
            raise self.from_native(e)

    def assign(self, target, v, env):
        if isinstance(target, ast.Name):
            name = target.id
            if env.is_class and name.startswith("__") and not name.endswith("__"):
                name = "_" + env.vars.get("__qualname__local__", "").lstrip("_") + name
            env.vars[name] = v
        elif isinstance(target, ast.Attribute):
            self.setattr_(self.eval(target.value, env), self.mangle(target.attr, env), v)
        elif isinstance(target, ast.Subscript):
            self.setitem(self.eval(target.value, env), self.eval_slice(target.slice, env), v)
        elif isinstance(target, (ast.Tuple, ast.List)):
            items = self.iter_list(v)
            star = [i for i, e in enumerate(target.elts) if isinstance(e, ast.Starred)]
            if star:
                k = star[0]
                after = len(target.elts) - k - 1
                if len(items) < len(target.elts) - 1:
                    self.raise_("ValueError", f"not enough values to unpack (expected at least {len(target.elts) - 1}, got {len(items)})")
                for e, x in zip(target.elts[:k], items[:k]):
                    self.assign(e, x, env)
                self.assign(target.elts[k].value, list(items[k:len(items) - after]), env)
                for e, x in zip(target.elts[k + 1:], items[len(items) - after:]):
                    self.assign(e, x, env)
            else:
                if len(items) != len(target.elts):
                    if len(items) > len(target.elts):
                        self.raise_("ValueError", f"too many values to unpack (expected {len(target.elts)})")
                    self.raise_("ValueError", f"not enough values to unpack (expected {len(target.elts)}, got {len(items)})")
                for e, x in zip(target.elts, items):
                    self.assign(e, x, env)
        else:
            raise OutOfReach(f"assignment target {type(target).__name__}")

    def s_If(self, node, env):
        testval = self.eval(node.test, env)          # evaluated exactly once (it may have side effects)
        if self.try_merge_if(node, env, testval):
            return
        if self.truth(testval):
            self.exec_block(node.body, env)
        else:
            self.exec_block(node.orelse, env)

    # -- if-conversion: merge simple conditional assignments without forking
    def _simple_assign_block(self, stmts):
        names = set()
        for s in stmts:
            if isinstance(s, ast.Assign) and len(s.targets) == 1 and isinstance(s.targets[0], ast.Name):
                names.add(s.targets[0].id)
            elif isinstance(s, ast.AugAssign) and isinstance(s.target, ast.Name):
                names.add(s.target.id)
            elif isinstance(s, ast.Pass):
                continue
            else:
                return None
            # speculative execution of both arms is only sound for side-effect free right-hand sides
            if any(isinstance(n, (ast.Call, ast.Yield, ast.YieldFrom, ast.Await)) for n in ast.walk(s.value)):
                return None
        return names

    def try_merge_if(self, node, env, testval):
        c = ctx_or_none()
        if c is None:
            return False
        n1 = self._simple_assign_block(node.body)
        n2 = self._simple_assign_block(node.orelse)
        if n1 is None or n2 is None:
            return False
        names = n1 | n2
        if not names or any(n not in env.vars for n in names):
            return False
        snapshot_trace = len(c.trace)
        snapshot_pc = len(c.pc)
        c.nofork += 1
        try:
            try:
                cond = ops.truth_term(testval)
                if cond is None or isinstance(cond, bool):
                    return False
                old = {n: env.vars[n] for n in names}
                e1 = Env(vars=dict(env.vars), parent=env.parent, glob=env.glob, func=env.func)
                self.exec_block(node.body, e1)
                e2 = Env(vars=dict(env.vars), parent=env.parent, glob=env.glob, func=env.func)
                self.exec_block(node.orelse, e2)
                merged = {}
                for n in names:
                    a, b = e1.vars[n], e2.vars[n]
                    if ops.is_intlike(a) and ops.is_intlike(b) and not (isinstance(a, (bool, SBool)) or isinstance(b, (bool, SBool))):
                        d = const_of(simp(T(a) - T(b)))
                        if d is not None:
                            merged[n] = mk_int(T(b) + z3.If(cond, I(d), I(0))) if d != 0 else b
                        else:
                            merged[n] = mk_int(z3.If(cond, T(a), T(b)))
                    elif isinstance(a, (bool, SBool)) and isinstance(b, (bool, SBool)):
                        merged[n] = mk_bool(z3.If(cond, B(a), B(b)))
                    else:
                        return False
            except (_NoFork, PyRaise, OutOfReach, _Return, _Break, _Continue):
                return False
            except NATIVE_EXC:
                return False
        finally:
            c.nofork -= 1
            if len(c.trace) != snapshot_trace or len(c.pc) != snapshot_pc:
                # speculative execution must not have changed the path; pc additions are only
                # range axioms (sound globally) -- keep them
                pass
        env.vars.update(merged)
        return True

    def s_While(self, node, env):
        if self.loop_hook is not None:
            r = self.loop_hook(self, node, env, "while")
            if r is not NotImplemented:
                return
        broke = False
        while self.truth(self.eval(node.test, env)):
            try:
                self.exec_block(node.body, env)
            except _Break:
                broke = True
                break
            except _Continue:
                continue
        if not broke:
            self.exec_block(node.orelse, env)

    def s_For(self, node, env):
        if self.loop_hook is not None:
            r = self.loop_hook(self, node, env, "for")
            if r is not NotImplemented:
                return
        items = self.iter_lazy(self.eval(node.iter, env))
        broke = False
        for x in items:
            self.assign(node.target, x, env)
            try:
                self.exec_block(node.body, env)
            except _Break:
                broke = True
                break
            except _Continue:
                continue
        if not broke:
            self.exec_block(node.orelse, env)

    def s_Raise(self, node, env):
        if node.exc is None:
            cur = getattr(env, "_cur_exc", None)
            e = env
            while e is not None:
                if "__cur_exc__" in e.vars:
                    raise PyRaise(e.vars["__cur_exc__"])
                e = e.parent
            self.raise_("RuntimeError", "No active exception to reraise")
        exc = self.eval(node.exc, env)
        if isinstance(exc, IClass):
            exc = self.call(exc, [], {})
        if not isinstance(exc, IObj) or not exc.cls.issub(self.exc["BaseException"]):
            if isinstance(exc, SAny):
                raise OutOfReach("raise of unknown value")
            self.raise_("TypeError", "exceptions must derive from BaseException")
        if node.cause is not None:
            exc.attrs["__cause__"] = self.eval(node.cause, env)
        raise PyRaise(exc)

    def s_Try(self, node, env):
        try:
            try:
                self.exec_block(node.body, env)
            except PyRaise as pr:
                handled = False
                for h in node.handlers:
                    if h.type is None:
                        match = True
                    else:
                        t = self.eval(h.type, env)
                        match = self.exc_matches(pr.exc, t)
                    if match:
                        handled = True
                        if h.name:
                            env.vars[h.name] = pr.exc
                        saved = env.vars.get("__cur_exc__", MISSING)
                        env.vars["__cur_exc__"] = pr.exc
                        try:
                            self.exec_block(h.body, env)
                        finally:
                            if saved is MISSING:
                                env.vars.pop("__cur_exc__", None)
                            else:
                                env.vars["__cur_exc__"] = saved
                            if h.name:
                                env.vars.pop(h.name, None)
                        break
                if not handled:
                    raise
            else:
                self.exec_block(node.orelse, env)
        except (PyRaise, _Return, _Break, _Continue):
            if node.finalbody:
                self.exec_block(node.finalbody, env)  # a return inside finally overrides
            raise
        else:
            if node.finalbody:
                self.exec_block(node.finalbody, env)

    def exc_matches(self, exc, t):
        if isinstance(t, tuple):
            return any(self.exc_matches(exc, x) for x in t)
        if isinstance(t, IClass):
            return exc.cls.issub(t)
        raise OutOfReach(f"except clause with {t!r}")

    def s_Assert(self, node, env):
        if not self.truth(self.eval(node.test, env)):
            self.raise_("AssertionError")

    def s_Delete(self, node, env):
        for t in node.targets:
            if isinstance(t, ast.Subscript):
                obj = self.eval(t.value, env)
                key = self.eval_slice(t.slice, env)
                if isinstance(obj, (dict, list)) and not ops.is_sym(key):
                    try:
                        del obj[key]
                    except NATIVE_EXC as e:
                        raise self.from_native(e)
                    continue
            elif isinstance(t, ast.Name):
                env.vars.pop(t.id, None)
                continue
            raise OutOfReach("del")

    def s_Global(self, node, env):
        raise OutOfReach("global statement")

    def s_With(self, node, env):
        raise OutOfReach("with statement")

    # ------------------------------------------------------------------ expressions
    def eval(self, node, env):
        m = getattr(self, "e_" + type(node).__name__, None)
        if m is None:
            raise OutOfReach(f"expression {type(node).__name__} at line {getattr(node, 'lineno', '?')}")
        return m(node, env)

    def e_Constant(self, node, env):
        return node.value

    def load_name(self, name, env):
        v = env.lookup(name)
        if v is MISSING:
            v = self.builtins.get(name, MISSING)
            if v is MISSING:
                import builtins as _pyb
                if hasattr(_pyb, name):
                    raise OutOfReach(f"builtin {name} is not modelled")
                self.raise_("NameError", f"name '{name}' is not defined")
        return v

    def e_Name(self, node, env):
        return self.load_name(node.id, env)

    def mangle(self, attr, env):
        if attr.startswith("__") and not attr.endswith("__"):
            e = env
            while e is not None:
                if e.is_class:
                    return "_" + e.vars.get("__qualname__local__", "").lstrip("_") + attr
                if e.func is not None:
                    lex = getattr(e.func, "lexcls", None)
                    if lex:
                        return "_" + lex.lstrip("_") + attr
                    return attr
                e = e.parent
        return attr

    def e_Attribute(self, node, env):
        obj = self.eval(node.value, env)
        return self.getattr_(obj, self.mangle(node.attr, env))

    def e_Tuple(self, node, env):
        return tuple(self.eval_elts(node.elts, env))

    def e_List(self, node, env):
        return self.eval_elts(node.elts, env)

    def e_Set(self, node, env):
        items = self.eval_elts(node.elts, env)
        if any(ops.is_sym(x) for x in items):
            raise OutOfReach("set literal with symbolic elements")
        return set(items)

    def eval_elts(self, elts, env):
        out = []
        for e in elts:
            if isinstance(e, ast.Starred):
                out.extend(self.iter_list(self.eval(e.value, env)))
            else:
                out.append(self.eval(e, env))
        return out

    def e_Dict(self, node, env):
        d = {}
        for k, v in zip(node.keys, node.values):
            if k is None:
                src = self.eval(v, env)
                if not isinstance(src, dict):
                    raise OutOfReach("dict unpacking of non-dict")
                d.update(src)
            else:
                key = self.eval(k, env)
                if ops.is_sym(key):
                    key = self.concrete_key(key)
                d[key] = self.eval(v, env)
        return d

    def concrete_key(self, key):
        if isinstance(key, Rope):
            c = rope_concrete(key)
            if c is not None:
                return c
        if isinstance(key, SInt):
            c = const_of(key.t)
            if c is not None:
                return c
        raise OutOfReach("symbolic dictionary key in a store")

    def e_BoolOp(self, node, env):
        is_and = isinstance(node.op, ast.And)
        v = None
        for i, e in enumerate(node.values):
            v = self.eval(e, env)
            if i == len(node.values) - 1:
                return v
            t = self.truth(v)
            if is_and and not t:
                return v
            if not is_and and t:
                return v
        return v

    def e_UnaryOp(self, node, env):
        v = self.eval(node.operand, env)
        if isinstance(node.op, ast.Not):
            r = ops.py_not(v)
            if r is not None:
                return r
            return not self.truth(v)
        op = {ast.USub: "-", ast.UAdd: "+", ast.Invert: "~"}[type(node.op)]
        try:
            return ops.py_unary(op, v)
        except NATIVE_EXC as e:
            raise self.from_native(e)

    def e_BinOp(self, node, env):
        a = self.eval(node.left, env)
        b = self.eval(node.right, env)
        return self.binop(BINOPS[type(node.op)], a, b)

    _SAFE_OPS = (ast.Add, ast.Sub, ast.Mult, ast.BitOr, ast.BitAnd, ast.BitXor, ast.LShift)

    def _safe_arith(self, node):
        """an integer expression whose evaluation cannot raise or have effects: constants, names, + - * | & ^ and << of those"""
        if isinstance(node, ast.Constant):
            return isinstance(node.value, int)
        if isinstance(node, ast.Name):
            return True
        if isinstance(node, ast.BinOp) and isinstance(node.op, self._SAFE_OPS):
            return self._safe_arith(node.left) and self._safe_arith(node.right)
        return False

    def e_IfExp(self, node, env):
        tv = self.eval(node.test, env)
        t = ops.truth_term(tv)
        if (getattr(node, "_pyvc_sum_term", False) and t is not None and not isinstance(t, bool)
                and self._safe_arith(node.body) and self._safe_arith(node.orelse)):
            # the terms of a filtered numeric sum (see e_Call): `elt if cond else 0` with concrete values is one ITE term, not two paths
            try:
                a, b = self.eval(node.body, env), self.eval(node.orelse, env)
            except PyRaise:
                a = b = None
            # only when both arms are concrete numbers: an ITE over symbolic arms makes later bit operations much harder for
            # the solver than the two separate paths
            if isinstance(a, int) and isinstance(b, int) and not isinstance(a, bool) and not isinstance(b, bool):
                return mk_int(simp(z3.If(t, T(a), T(b))))
        if self.truth(tv):
            return self.eval(node.body, env)
        return self.eval(node.orelse, env)

    def e_Compare(self, node, env):
        left = self.eval(node.left, env)
        result = True
        for op, comp in zip(node.ops, node.comparators):
            right = self.eval(comp, env)
            r = self.compare(op, left, right)
            if len(node.ops) == 1:
                return r
            # chained comparison: conjunction without short-circuit side effects (operands are pure here)
            if r is False:
                return False
            if r is not True:
                result = r if result is True else mk_bool(z3.And(B(result), B(r)))
            left = right
        return result

    def compare(self, op, a, b):
        try:
            if isinstance(op, ast.Eq):
                return self.eq(a, b)
            if isinstance(op, ast.NotEq):
                r = self.eq(a, b)
                n = ops.py_not(r)
                return n if n is not None else (not self.truth(r))
            if isinstance(op, ast.Is):
                return self.is_(a, b)
            if isinstance(op, ast.IsNot):
                r = self.is_(a, b)
                n = ops.py_not(r)
                return n if n is not None else (not self.truth(r))
            if isinstance(op, ast.In):
                return self.contains(b, a)
            if isinstance(op, ast.NotIn):
                r = self.contains(b, a)
                n = ops.py_not(r)
                return n if n is not None else (not self.truth(r))
            return ops.py_compare(CMPOPS[type(op)], a, b)
        except NATIVE_EXC as e:
            raise self.from_native(e)

    def eq(self, a, b):
        for x, y in ((a, b), (b, a)):
            if isinstance(x, IObj):
                f = x.cls.lookup("__eq__")
                if f is not MISSING and isinstance(f, IFunc):
                    return self.call(f, [x, y], {})
                nt = x.cls.ns.get("_fields_nt")
                if nt is not None and isinstance(y, IObj) and y.cls is x.cls:
                    return ops.py_eq(tuple(x.attrs[k] for k in nt), tuple(y.attrs[k] for k in nt))
        return ops.py_eq(a, b)

    def is_(self, a, b):
        if isinstance(a, SAny) or isinstance(b, SAny):
            return a is b
        if ops.is_sym(a) or ops.is_sym(b):
            if isinstance(a, SBool) and isinstance(b, bool):
                return mk_bool(a.t == b)
            if isinstance(b, SBool) and isinstance(a, bool):
                return mk_bool(b.t == a)
            return False
        if a is None or b is None or isinstance(a, bool) or isinstance(b, bool):
            return a is b
        if isinstance(a, (int, str, bytes)) and isinstance(b, (int, str, bytes)):
            return type(a) is type(b) and a == b
        return a is b

    def contains(self, container, item):
        if isinstance(container, IObj) or isinstance(container, IClass):
            f = self.find_dunder(container, "__contains__")
            if f is not None:
                return self.truthy_value(self.call(f, [item], {}))
            raise PyRaise(self.make_exc(self.exc["TypeError"], "argument is not iterable"))
        if isinstance(container, (list, tuple, set, frozenset)) and isinstance(item, IObj) and \
                item.cls.lookup("__eq__") is not MISSING:
            for x in container:
                if self.truth(self.eq(x, item)):
                    return True
            return False
        return ops.py_contains(container, item)

    def truthy_value(self, v):
        if isinstance(v, (bool, SBool)):
            return v
        return self.truth(v)

    def find_dunder(self, obj, name):
        """bound dunder for an IObj (via class) or IClass (via metaclass)"""
        if isinstance(obj, IObj):
            f = obj.cls.lookup(name)
            if f is not MISSING and isinstance(f, IFunc):
                return IBound(obj, f)
        elif isinstance(obj, IClass) and obj.meta is not None:
            f = obj.meta.lookup(name)
            if f is not MISSING and isinstance(f, IFunc):
                return IBound(obj, f)
        return None

    def truth(self, v):
        r = ops.truth(v)
        if r is NotImplemented:
            f = self.find_dunder(v, "__bool__")
            if f is not None:
                return self.truth(self.call(f, [], {}))
            f = self.find_dunder(v, "__len__")
            if f is not None:
                return self.truth(self.call(f, [], {}))
            nt = v.cls.ns.get("_fields_nt")
            if nt is not None:
                return len(nt) > 0
            return True
        return r

    def eval_slice(self, node, env):
        if isinstance(node, ast.Slice):
            lo = self.eval(node.lower, env) if node.lower is not None else None
            hi = self.eval(node.upper, env) if node.upper is not None else None
            st = self.eval(node.step, env) if node.step is not None else None
            return slice(lo, hi, st)
        return self.eval(node, env)

    def e_Subscript(self, node, env):
        obj = self.eval(node.value, env)
        key = self.eval_slice(node.slice, env)
        return self.getitem(obj, key)

    def getitem(self, obj, key):
        if isinstance(obj, IStub):
            return obj
        if isinstance(obj, (IObj, IClass)):
            nt = obj.cls.ns.get("_fields_nt") if isinstance(obj, IObj) else None
            if nt is not None:
                return self.getitem(tuple(obj.attrs[k] for k in nt), key)
            f = self.find_dunder(obj, "__getitem__")
            if f is not None:
                return self.call(f, [key], {})
            self.raise_("TypeError", f"'{ops.type_name(obj)}' object is not subscriptable")
        if isinstance(obj, IStream):
            self.raise_("TypeError", "'_io.BytesIO' object is not subscriptable")
        try:
            r = ops.py_getitem(obj, key)
        except NATIVE_EXC as e:
            raise self.from_native(e)
        if r is NotImplemented:
            raise OutOfReach(f"subscript of {ops.type_name(obj)}")
        return r

    def setitem(self, obj, key, v):
        if isinstance(obj, dict):
            if ops.is_sym(key):
                key = self.concrete_key(key)
            try:
                obj[key] = v
            except NATIVE_EXC as e:
                raise self.from_native(e)
            return
        if isinstance(obj, list):
            if isinstance(key, slice) or ops.is_sym(key):
                if isinstance(key, slice) and not any(ops.is_sym(x) for x in (key.start, key.stop, key.step)):
                    obj[key] = self.iter_list(v)
                    return
                raise OutOfReach("symbolic list store")
            try:
                obj[key] = v
            except NATIVE_EXC as e:
                raise self.from_native(e)
            return
        if isinstance(obj, IByteArray):
            return self.lib.bytearray_setitem(self, obj, key, v)
        if isinstance(obj, IObj):
            f = self.find_dunder(obj, "__setitem__")
            if f is not None:
                return self.call(f, [key, v], {})
        if isinstance(obj, SAny):
            try:
                ops.any_op("setitem")
            except NATIVE_EXC as e:
                raise self.from_native(e)
            return
        self.raise_("TypeError", f"'{ops.type_name(obj)}' object does not support item assignment")

    def e_Starred(self, node, env):
        raise OutOfReach("starred expression in unsupported position")

    def e_Lambda(self, node, env):
        return self.make_function(node, env)

    def e_JoinedStr(self, node, env):
        parts = []
        for v in node.values:
            if isinstance(v, ast.Constant):
                parts.append(v.value)
            else:
                parts.append(self.format_value(v, env))
        out = ""
        for p in parts:
            out = p if out == "" else (out + p if not (ops.is_sym(out) or ops.is_sym(p)) else rope_concat(out, p))
        return out

    def format_value(self, node, env):
        val = self.eval(node.value, env)
        spec = ""
        if node.format_spec is not None:
            spec = self.e_JoinedStr(node.format_spec, env)
        conv = node.conversion
        return self.lib.format_value(self, val, conv, spec)

    def e_FormattedValue(self, node, env):
        return self.format_value(node, env)

    # -- comprehensions (eager)
    def _comp(self, generators, env, emit):
        def rec(i, e):
            if i == len(generators):
                emit(e)
                return
            g = generators[i]
            it = self.eval(g.iter, e if i else env)
            if self.loop_hook is not None:
                r = self.loop_hook(self, g, e, "comp", it)
                if r is not NotImplemented:
                    raise OutOfReach("comprehension cut point not supported in this position")
            for x in self.iter_lazy(it):
                self.assign(g.target, x, e)
                if all(self.truth(self.eval(c, e)) for c in g.ifs):
                    rec(i + 1, e)
        inner = Env(parent=env, glob=env.glob, func=env.func)
        rec(0, inner)

    def e_ListComp(self, node, env):
        out = []
        self._comp(node.generators, env, lambda e: out.append(self.eval(node.elt, e)))
        return out

    def e_GeneratorExp(self, node, env):
        out = []
        self._comp(node.generators, env, lambda e: out.append(self.eval(node.elt, e)))
        return IIter(out, is_gen=True)

    def e_SetComp(self, node, env):
        out = []
        self._comp(node.generators, env, lambda e: out.append(self.eval(node.elt, e)))
        if any(ops.is_sym(x) for x in out):
            raise OutOfReach("set comprehension with symbolic elements")
        return set(out)

    def e_DictComp(self, node, env):
        out = {}

        def emit(e):
            k = self.eval(node.key, e)
            if ops.is_sym(k):
                k = self.concrete_key(k)
            out[k] = self.eval(node.value, e)
        self._comp(node.generators, env, emit)
        return out

    def e_Call(self, node, env):
        fn = self.eval(node.func, env)
        if isinstance(fn, IStub) and fn.kind == "logger":
            return None
        if isinstance(fn, IBound) and isinstance(fn.self_, IStub) and fn.self_.kind == "logger":
            return None
        if isinstance(fn, INative) and fn.name == "sum" and len(node.args) == 1 and not node.keywords:
            # sum(<numeric expr> for x in xs if <cond>): a filter on a symbolic condition would fork once per element; the sum
            # is the same with the filtered-out terms replaced by 0, the element expression still evaluated only when it holds
            g = node.args[0]
            if (isinstance(g, (ast.GeneratorExp, ast.ListComp)) and len(g.generators) == 1 and g.generators[0].ifs
                    and isinstance(g.elt, (ast.BinOp, ast.UnaryOp, ast.Constant))
                    and not (isinstance(g.elt, ast.Constant) and not isinstance(g.elt.value, int))):
                gen = g.generators[0]
                test = gen.ifs[0] if len(gen.ifs) == 1 else ast.BoolOp(op=ast.And(), values=list(gen.ifs))
                elt = ast.IfExp(test=test, body=g.elt, orelse=ast.Constant(value=0))
                elt._pyvc_sum_term = True
                ng = ast.ListComp(elt=elt, generators=[ast.comprehension(target=gen.target, iter=gen.iter, ifs=[], is_async=0)])
                ast.copy_location(ng, g)
                ast.fix_missing_locations(ng)
                return self.call(fn, [self.eval(ng, env)], {})
        args = []
        for a in node.args:
            if isinstance(a, ast.Starred):
                args.extend(self.iter_list(self.eval(a.value, env)))
            else:
                args.append(self.eval(a, env))
        kwargs = {}
        for k in node.keywords:
            if k.arg is None:
                d = self.eval(k.value, env)
                if not isinstance(d, dict):
                    raise OutOfReach("** of non-dict")
                kwargs.update(d)
            else:
                kwargs[k.arg] = self.eval(k.value, env)
        if isinstance(fn, INative) and fn.name == "super" and not args:
            # zero-argument super()
            e = env
            while e is not None and e.func is None:
                e = e.parent
            if e is None or e.func.defcls is None:
                raise OutOfReach("super() outside method")
            first = e.vars.get(e.func.node.args.args[0].arg)
            return ISuper(e.func.defcls, first)
        return self.call(fn, args, kwargs)

    # ------------------------------------------------------------------ calls
    def call(self, fn, args, kwargs):
        self.stats["calls"] += 1
        if isinstance(fn, IBound):
            return self.call(fn.func, [fn.self_] + list(args), kwargs)
        if isinstance(fn, INative):
            try:
                if fn.raw:
                    return fn.fn(self, args, kwargs)
                return fn.fn(*args, **kwargs)
            except NATIVE_EXC as e:
                raise self.from_native(e)
        if isinstance(fn, IFunc):
            if self.call_hook is not None:
                r = self.call_hook(self, fn, args, kwargs)
                if r is not NotImplemented:
                    return r
            return self.call_function(fn, args, kwargs)
        if isinstance(fn, IClass):
            return self.instantiate(fn, args, kwargs)
        if isinstance(fn, IStub):
            if fn.kind == "logger":
                return None
            if fn.kind == "unmodelled":
                raise OutOfReach(f"call of the unmodelled library function {fn.name}")
            return fn
        if isinstance(fn, IObj):
            f = self.find_dunder(fn, "__call__")
            if f is not None:
                return self.call(f, args, kwargs)
            self.raise_("TypeError", f"'{fn.cls.name}' object is not callable")
        if isinstance(fn, IClassMethod) or isinstance(fn, IStaticMethod):
            self.raise_("TypeError", "descriptor object is not callable")
        if isinstance(fn, SAny):
            try:
                return ops.any_op("call")
            except NATIVE_EXC as e:
                raise self.from_native(e)
        if fn is None or isinstance(fn, (int, str, bytes, list, dict, tuple, Sym)):
            self.raise_("TypeError", f"'{ops.type_name(fn)}' object is not callable")
        raise OutOfReach(f"call of {fn!r}")

    def bind_args(self, fn, args, kwargs):
        a = fn.node.args
        if getattr(a, "posonlyargs", None):
            raise OutOfReach("positional-only parameters")
        names = [x.arg for x in a.args]
        vars_ = {}
        args = list(args)
        kwargs = dict(kwargs)
        n = len(names)
        for i, name in enumerate(names):
            if i < len(args):
                if name in kwargs:
                    self.raise_("TypeError", f"{fn.name}() got multiple values for argument '{name}'")
                vars_[name] = args[i]
            elif name in kwargs:
                vars_[name] = kwargs.pop(name)
            else:
                di = i - (n - len(fn.defaults))
                if di >= 0:
                    vars_[name] = fn.defaults[di]
                else:
                    self.raise_("TypeError", f"{fn.name}() missing required positional argument: '{name}'")
        extra = args[n:]
        if a.vararg:
            vars_[a.vararg.arg] = tuple(extra)
        elif extra:
            self.raise_("TypeError", f"{fn.name}() takes {n} positional arguments but {len(args)} were given")
        for k in a.kwonlyargs:
            if k.arg in kwargs:
                vars_[k.arg] = kwargs.pop(k.arg)
            elif k.arg in fn.kwdefaults:
                vars_[k.arg] = fn.kwdefaults[k.arg]
            else:
                self.raise_("TypeError", f"{fn.name}() missing required keyword-only argument: '{k.arg}'")
        if a.kwarg:
            vars_[a.kwarg.arg] = kwargs
        elif kwargs:
            self.raise_("TypeError", f"{fn.name}() got an unexpected keyword argument '{next(iter(kwargs))}'")
        return vars_

    def call_function(self, fn, args, kwargs):
        if len(self.frames) > self.max_call_depth:
            raise OutOfReach("call depth exceeded")
        vars_ = self.bind_args(fn, args, kwargs)
        env = Env(vars=vars_, parent=fn.env, glob=fn.module.ns if fn.module else (fn.env.glob if fn.env else None), func=fn)
        if fn.is_generator:
            return self.lib.make_generator(self, fn, env)
        self.frames.append(fn)
        try:
            if isinstance(fn.node, ast.Lambda):
                return self.eval(fn.node.body, env)
            try:
                self.exec_block(fn.node.body, env)
            except _Return as r:
                return r.value
            return None
        finally:
            self.frames.pop()

    def instantiate(self, cls, args, kwargs):
        if cls.native is not None and cls.ns.get("__construct__") is not None:
            try:
                return cls.ns["__construct__"](self, cls, args, kwargs)
            except NATIVE_EXC as e:
                raise self.from_native(e)
        ctor = cls.lookup("__construct__")
        if ctor is not MISSING and cls.lookup("__init__") is MISSING:
            try:
                return ctor(self, cls, args, kwargs)
            except NATIVE_EXC as e:
                raise self.from_native(e)
        if cls.meta is not None:
            mc = cls.meta.lookup("__call__")
            if mc is not MISSING and isinstance(mc, IFunc):
                return self.call(mc, [cls] + list(args), kwargs)
        obj = IObj(cls)
        if cls.issub(self.exc["BaseException"]):
            obj.attrs["args"] = tuple(args)
            obj.attrs["__cause__"] = None
        init = cls.lookup("__init__")
        if init is not MISSING:
            if isinstance(init, IFunc):
                self.call(init, [obj] + list(args), kwargs)
            elif isinstance(init, INative):
                self.call(init, [obj] + list(args), kwargs)
        elif (args or kwargs) and not cls.issub(self.exc["BaseException"]):
            self.raise_("TypeError", f"{cls.name}() takes no arguments")
        return obj

    # ------------------------------------------------------------------ attributes
    def getattr_(self, obj, name, default=MISSING):
        v = self._getattr(obj, name)
        if v is MISSING:
            if default is not MISSING:
                return default
            if isinstance(obj, SAny):
                try:
                    return ops.any_op("getattr " + name)
                except NATIVE_EXC as e:
                    raise self.from_native(e)
            self.raise_("AttributeError", f"'{ops.type_name(obj)}' object has no attribute '{name}'")
        return v

    def _bind(self, v, obj, cls):
        if isinstance(v, IFunc):
            return IBound(obj, v) if obj is not None else v
        if isinstance(v, IClassMethod):
            return IBound(cls, v.func)
        if isinstance(v, IStaticMethod):
            return v.func
        if isinstance(v, IProperty):
            if obj is None:
                return v
            return self.call(v.fget, [obj], {})
        if isinstance(v, INative) and getattr(v, "is_method", False) and obj is not None:
            return IBound(obj, v)
        return v

    def _getattr(self, obj, name):
        if isinstance(obj, IObj):
            if name == "__class__":
                return obj.cls
            if name == "__dict__":
                return obj.attrs
            v = obj.cls.lookup(name)
            if isinstance(v, IProperty):
                return self.call(v.fget, [obj], {})
            if name in obj.attrs:
                return obj.attrs[name]
            if v is not MISSING:
                return self._bind(v, obj, obj.cls)
            if name == "__cause__":
                return None
            return MISSING
        if isinstance(obj, IClass):
            if name == "__name__":
                return obj.name
            if name == "__qualname__":
                return obj.ns.get("__qualname__", obj.name)
            if name == "__dict__":
                return obj.ns
            if name == "__mro__":
                return tuple(obj.mro)
            if name == "__bases__":
                return obj.bases
            v = obj.lookup(name)
            if v is not MISSING:
                return self._bind(v, None, obj)
            if obj.meta is not None:
                v = obj.meta.lookup(name)
                if v is not MISSING:
                    if isinstance(v, IFunc):
                        return IBound(obj, v)
                    if isinstance(v, IProperty):
                        return self.call(v.fget, [obj], {})
                    return v
            return MISSING
        if isinstance(obj, IModule):
            if name in obj.ns:
                return obj.ns[name]
            sub = obj.name + "." + name
            if sub in self.modules:
                return self.modules[sub]
            if obj.path is None and obj.name.split(".")[0] not in self.roots:
                raise OutOfReach(f"unmodelled library attribute {obj.name}.{name}")
            return MISSING
        if isinstance(obj, ISuper):
            start = obj.obj.cls if isinstance(obj.obj, IObj) else obj.obj
            mro = start.mro
            i = mro.index(obj.cls) if obj.cls in mro else -1
            for k in mro[i + 1:]:
                if name in k.ns:
                    v = k.ns[name]
                    if isinstance(obj.obj, IObj):
                        return self._bind(v, obj.obj, start)
                    # super() inside a classmethod / metaclass method
                    if isinstance(v, IClassMethod):
                        return IBound(obj.obj, v.func)
                    if isinstance(v, IStaticMethod):
                        return v.func
                    if isinstance(v, IFunc):
                        return IBound(obj.obj, v)
                    if isinstance(v, INative):
                        return IBound(obj.obj, v) if getattr(v, "is_method", False) else v
                    return v
            return MISSING
        if isinstance(obj, IFunc):
            if name == "__name__":
                return obj.name
            if name == "__qualname__":
                return obj.qualname
            return obj.attrs.get(name, MISSING)
        if isinstance(obj, IBound):
            if name == "__func__":
                return obj.func
            if name == "__self__":
                return obj.self_
            return self._getattr(obj.func, name)
        if isinstance(obj, IStub):
            if obj.kind == "logger":
                return IStub(obj.name + "." + name, "logger")
            return IStub(obj.name + "." + name, obj.kind)
        return self.lib.native_getattr(self, obj, name)

    def setattr_(self, obj, name, v):
        if isinstance(obj, IObj):
            p = obj.cls.lookup(name)
            if isinstance(p, IProperty):
                if p.fset is None:
                    self.raise_("AttributeError", f"can't set attribute '{name}'")
                self.call(p.fset, [obj, v], {})
                return
            if obj.cls.ns.get("_fields_nt") is not None:
                self.raise_("AttributeError", "can't set attribute")
            obj.attrs[name] = v
        elif isinstance(obj, IClass):
            obj.ns[name] = v
        elif isinstance(obj, IFunc):
            obj.attrs[name] = v
        elif isinstance(obj, IModule):
            obj.ns[name] = v
        elif isinstance(obj, SAny):
            try:
                ops.any_op("setattr")
            except NATIVE_EXC as e:
                raise self.from_native(e)
        else:
            self.raise_("AttributeError", f"'{ops.type_name(obj)}' object has no attribute '{name}'")

    # ------------------------------------------------------------------ iteration
    def iter_lazy(self, v):
        """iterate; a range with symbolic bounds is unrolled by deciding `i < stop` on the path each round
        (every path is finite because the budget of decisions is; no bound is assumed on the range itself)"""
        if isinstance(v, self.lib.SymRange):
            if isinstance(v.step, int):
                if v.step == 0:
                    self.raise_("ValueError", "range() arg 3 must not be zero")
                if v.step < 0:
                    raise OutOfReach("symbolic range with a negative step")
            else:
                c = ctx()
                if not c.branch(T(v.step) > 0):
                    if c.branch(T(v.step) == 0):
                        self.raise_("ValueError", "range() arg 3 must not be zero")
                    raise OutOfReach("symbolic range with a negative step")
            return self._sym_range(v)
        return self.iter_list(v)

    def _sym_range(self, v):
        c = ctx()
        k = 0
        while True:
            if k > 600:
                raise OutOfReach("more than 600 iterations of a symbolic range")
            cur = mk_int(T(v.start) + k * T(v.step))
            if not c.branch(T(cur) < T(v.stop)):
                return
            yield cur
            k += 1

    def iter_list(self, v):
        if isinstance(v, IGen):
            raise OutOfReach("draining an infinite generator")
        if isinstance(v, IObj):
            nt = v.cls.ns.get("_fields_nt")
            if nt is not None:
                return [v.attrs[k] for k in nt]
            f = self.find_dunder(v, "__iter__")
            if f is not None:
                return self.iter_list(self.call(f, [], {}))
            self.raise_("TypeError", f"'{v.cls.name}' object is not iterable")
        if isinstance(v, IClass):
            self.raise_("TypeError", f"'type' object is not iterable")
        try:
            r = ops.py_iter_list(v)
        except NATIVE_EXC as e:
            raise self.from_native(e)
        if r is NotImplemented:
            raise OutOfReach(f"iteration over {ops.type_name(v)}")
        return r


def ctx_or_none():
    from .sym import _CTX
    return _CTX[0]
