"""Reference (specification) functions, written from the property statements and the CIP / Logix / PCCC wire
specifications -- never from the code under verification.  Every module here is plain Python in the subset the
engine interprets, so the same text is (a) executed symbolically in proofs and (b) run natively in replays."""
