"""Independent strict parser for CIP paths (CIP Vol 1, Appendix C-1.4) -- the oracle of C09, C14, C15.

  segment byte:  bits 7-5 segment type, bits 4-0 segment format
  000 port segment      bit 4 = extended link address size, bits 3-0 = port identifier (1..14; 15 escapes to a
                        16-bit port number, not produced here).  Without bit 4: one link-address byte follows.
                        With bit 4: a size byte, then that many link-address bytes, then a pad byte if the
                        segment length is odd.
  001 logical segment   bits 4-2 logical type (0 class, 1 instance, 2 member, 3 connection point, 4 attribute,
                        5 special, 6 service id); bits 1-0 logical format: 00 = 8-bit, 01 = 16-bit, 10 = 32-bit,
                        11 reserved.  Padded EPATH: 16- and 32-bit values are preceded by one pad byte (0x00).
                        Values are little-endian.
  100 data segment      0x80 simple data (size in words, data); 0x91 ANSI extended symbol: one length byte, the
                        characters, one pad byte (0x00) if the length is odd.
A padded path is always an even number of bytes; its length prefix counts 16-bit words.
"""

LOGICAL_TYPES = {0: "class_id", 1: "instance_id", 2: "member_id", 3: "connection_point", 4: "attribute_id",
                 5: "special", 6: "service_id"}
LOGICAL_CODES = {"class_id": 0, "instance_id": 1, "member_id": 2, "connection_point": 3, "attribute_id": 4,
                 "special": 5, "service_id": 6}


class PathSyntaxError(Exception):
    pass


def le(data, pos, n):
    if pos + n > len(data):
        raise PathSyntaxError("truncated value")
    v = 0
    for k in range(n):
        v = v + (data[pos + k] << (8 * k))
    return v


def parse_segment(data, pos, padded):
    """-> (segment, next position); segment is a tuple"""
    if pos >= len(data):
        raise PathSyntaxError("no segment")
    b = data[pos]
    seg_type = b >> 5
    if seg_type == 0:
        port = b & 0x0F
        if port == 0 or port == 15:
            raise PathSyntaxError("reserved / extended port identifier")
        if b & 0x10:
            if pos + 1 >= len(data):
                raise PathSyntaxError("truncated port segment")
            size = data[pos + 1]
            if pos + 2 + size > len(data):
                raise PathSyntaxError("truncated link address")
            link = data[pos + 2:pos + 2 + size]
            nxt = pos + 2 + size
            if (2 + size) % 2 == 1:
                if nxt >= len(data) or data[nxt] != 0:
                    raise PathSyntaxError("missing pad byte after link address")
                nxt = nxt + 1
            return ("port", port, link), nxt
        if pos + 1 >= len(data):
            raise PathSyntaxError("truncated port segment")
        return ("port", port, data[pos + 1:pos + 2]), pos + 2
    if seg_type == 1:
        ltype = (b >> 2) & 0x07
        fmt = b & 0x03
        if ltype not in LOGICAL_TYPES:
            raise PathSyntaxError("reserved logical type")
        if fmt == 0:
            return ("logical", LOGICAL_TYPES[ltype], le(data, pos + 1, 1)), pos + 2
        if fmt == 3:
            raise PathSyntaxError("reserved logical format")
        width = 2 if fmt == 1 else 4
        p = pos + 1
        if padded:
            if p >= len(data) or data[p] != 0:
                raise PathSyntaxError("missing pad byte in padded logical segment")
            p = p + 1
        return ("logical", LOGICAL_TYPES[ltype], le(data, p, width)), p + width
    if seg_type == 4:
        if b == 0x91:
            if pos + 1 >= len(data):
                raise PathSyntaxError("truncated symbol segment")
            n = data[pos + 1]
            if pos + 2 + n > len(data):
                raise PathSyntaxError("truncated symbol")
            name = data[pos + 2:pos + 2 + n]
            nxt = pos + 2 + n
            if n % 2 == 1:
                if nxt >= len(data) or data[nxt] != 0:
                    raise PathSyntaxError("missing pad byte after symbol")
                nxt = nxt + 1
            return ("symbol", name), nxt
        if b == 0x80:
            if pos + 1 >= len(data):
                raise PathSyntaxError("truncated data segment")
            n = data[pos + 1]
            if pos + 2 + n > len(data):
                raise PathSyntaxError("truncated data")
            return ("data", data[pos + 2:pos + 2 + n]), pos + 2 + n
        raise PathSyntaxError("unknown data segment sub-type")
    raise PathSyntaxError("unsupported segment type")


def parse_path(data, padded=True):
    """all segments of a path; a padded path must have even length"""
    if padded and len(data) % 2 != 0:
        raise PathSyntaxError("padded path of odd length")
    out = []
    pos = 0
    while pos < len(data):
        seg, pos = parse_segment(data, pos, padded)
        out.append(seg)
    return out


def parse_sized_path(data, pad_after_size=False):
    """word count, optional reserved byte, then exactly that many words of padded path"""
    if len(data) < 1:
        raise PathSyntaxError("no size")
    words = data[0]
    start = 2 if pad_after_size else 1
    if pad_after_size and (len(data) < 2 or data[1] != 0):
        raise PathSyntaxError("missing reserved byte after path size")
    if len(data) - start != 2 * words:
        raise PathSyntaxError("path size does not match")
    return parse_path(data[start:], True)


def try_parse(data, padded=True):
    """parse result or None when the bytes are not a well-formed path"""
    try:
        return parse_path(data, padded)
    except PathSyntaxError:
        return None


def try_parse_sized(data, pad_after_size=False):
    try:
        return parse_sized_path(data, pad_after_size)
    except PathSyntaxError:
        return None


# ---- what was intended
def logical_value(value):
    """integer meant by a logical segment value given as int or as 1/2/4 little-endian bytes"""
    if isinstance(value, int):
        return value
    v = 0
    for k in range(len(value)):
        v = v + (value[k] << (8 * k))
    return v


def logical_in_domain(logical_type, value):
    if not isinstance(logical_type, str) or logical_type not in LOGICAL_CODES:
        return False
    if isinstance(value, bool):
        return True
    if isinstance(value, int):
        return 0 <= value and value <= 0xFFFFFFFF
    if isinstance(value, bytes):
        return len(value) == 1 or len(value) == 2 or len(value) == 4
    return False


PORT_NAMES = {"backplane": 1, "bp": 1, "enet": 2, "dhrio-a": 2, "dhrio-b": 3, "dnet": 2, "cnet": 2, "dh485-a": 2,
              "dh485-b": 3}
#   documented port names of the path syntax (docs/connection paths): backplane/bp = port 1; the first
#   communication port of a module = 2 (enet, cnet, dnet, dhrio-a, dh485-a), its second channel = 3


def port_number(port):
    """port identifier meant by a port given by name or number; None if it is not a usable port (1..14)"""
    if isinstance(port, str):
        return PORT_NAMES.get(port)
    if isinstance(port, bool) or not isinstance(port, int):
        return None
    if 1 <= port and port <= 14:
        return port
    return None


def dotted_quad(a, b, c, d):
    return str(a) + "." + str(b) + "." + str(c) + "." + str(d)


def tag_string(program, names, indices):
    """the documented tag syntax: [Program:<prog>.]name[i,j,k].member[i]..."""
    parts = []
    if program is not None:
        parts.append("Program:" + program)
    for k in range(len(names)):
        s = names[k]
        if len(indices[k]) > 0:
            s = s + "[" + ",".join(indices[k]) + "]"
        parts.append(s)
    return ".".join(parts)


def tag_path(program, names, indices, instance_id, use_instance_ids):
    """segments a tag request must carry (1756-PM020: symbolic segments for names, member ids for indices;
    Symbol Instance Addressing = class 0x6B + instance id for a controller-scoped base tag)"""
    segs = []
    start = 0
    if program is not None:
        segs.append(("symbol", ("Program:" + program).encode()))
    elif use_instance_ids and instance_id:
        segs.append(("logical", "class_id", 0x6B))
        segs.append(("logical", "instance_id", instance_id))
        for idx in indices[0]:
            segs.append(("logical", "member_id", int(idx)))
        start = 1
    for k in range(start, len(names)):
        segs.append(("symbol", names[k].encode()))
        for idx in indices[k]:
            segs.append(("logical", "member_id", int(idx)))
    return segs


def encode_logical(logical_type, value, padded=True):
    """reference encoder of one logical segment (C-1.4.2)"""
    code = 0x20 | (LOGICAL_CODES[logical_type] << 2)
    if isinstance(value, bytes):
        n = len(value)
        raw = value
    else:
        n = 1 if value <= 0xFF else (2 if value <= 0xFFFF else 4)
        raw = bytes([(value >> (8 * k)) & 0xFF for k in range(n)])
    fmt = 0 if n == 1 else (1 if n == 2 else 2)
    out = bytes([code | fmt])
    if padded and n > 1:
        out = out + b"\x00"
    return out + raw


def encode_request_path(class_code, instance, attribute=b""):
    """word count + class, instance and (if truthy) attribute segments"""
    path = encode_logical("class_id", class_code) + encode_logical("instance_id", instance)
    if attribute:
        path = path + encode_logical("attribute_id", attribute)
    return bytes([len(path) // 2]) + path


def encode_port(port, link):
    """reference encoder of one port segment: link is the link address bytes"""
    if len(link) == 1:
        return bytes([port]) + link
    out = bytes([port | 0x10, len(link)]) + link
    if len(out) % 2 == 1:
        out = out + b"\x00"
    return out


def route_bytes(pairs):
    """word count, reserved byte, port segments -- the route path of an Unconnected Send / Forward Open"""
    path = b""
    for port, link in pairs:
        path = path + encode_port(port, link)
    return bytes([len(path) // 2, 0]) + path


def link_bytes(link):
    """link address meant by a route component: slot number (0..255) -> one byte; dotted quad -> its ASCII text"""
    if "." in link:
        return link.encode()
    return bytes([int(link)])


def valid_tcp_port(n):
    return 1 <= n and n <= 65534


def wellformed_tag(tag):
    """documented tag syntax as far as the path builder relies on it: every '[' ... ']' holds 1-3 decimal indices"""
    if not isinstance(tag, str):
        return False
    for part in tag.split("."):
        if "[" in part or "]" in part:
            if part.count("[") != 1 or not part.endswith("]") or part.index("[") == 0:
                return False
            inner = part[part.index("[") + 1:-1]
            idx = inner.split(",")
            if len(idx) > 3:
                return False
            for i in idx:
                i = i.strip()      # int() tolerates surrounding blanks; the index still denotes that number
                if not (i.isdigit() and i.isascii()) or int(i) > 0xFFFFFFFF:
                    return False
    return True


def tag_path_or_raise(fn, tag, tag_info, use_instance_ids):
    """what callers may rely on for tag_request_path: an exception for a tag outside the documented syntax (the index is
    not a number that fits 32 bits), otherwise the path bytes (abstracted)"""
    from spec.abstract import bytes_of
    if not wellformed_tag(tag):
        raise ValueError("malformed tag")
    return bytes_of(fn, tag, tag_info, use_instance_ids)


def raises_something(thunk):
    try:
        thunk()
    except Exception:
        return True
    return False


def route_bytes_with_router(pairs):
    """connection path of a Forward Open: word count, the port segments of the route, then the message router (class 2, instance 1)"""
    path = b""
    for port, link in pairs:
        path = path + encode_port(port, link)
    path = path + b"\x20\x02\x24\x01"
    return bytes([len(path) // 2]) + path
