"""SLC / MicroLogix data-table addressing (Rockwell 1747-RM001 addressing, DF1 1770-RM516 "protected typed logical
read / write with three address fields"): the oracle of C18.

  data file address   <type><file>:<element>[/<bit>]         N7:0  B3:1/4  F8:2  L9:0  (file 1..255, element 0..255, bit 0..15)
  binary bit form     B<file>/<n>                            B3/17 = element 1, bit 1   (n 0..4095)
  I/O                 I:<e>[.<word>][/<bit>]  O0:<e>...      output file 0, input file 1
  status              S:<e>[/<bit>]                          file 2
  timers / counters   T4:0.ACC  C5:1.DN                      sub-element 1 = PRE, 2 = ACC; status bits EN/TT/DN (CU/CD/DN/OV/UN/UA)
  strings / ASCII     ST9:0  A10:3
  element count       <address>{n}

  typed read  (FNC A2): byte size, file number, file type, element number, sub-element number
  masked write (FNC AB): same address fields, then 16-bit mask, then data:  new = (old & ~mask) | (data & mask)
"""

FILE_TYPE_CODE = {"N": 0x89, "B": 0x85, "T": 0x86, "C": 0x87, "S": 0x84, "F": 0x8A, "ST": 0x8D, "A": 0x8E, "R": 0x88,
                  "O": 0x82, "I": 0x83, "L": 0x91}
ELEMENT_SIZE = {"N": 2, "B": 2, "T": 6, "C": 6, "S": 2, "F": 4, "ST": 84, "A": 2, "R": 6, "O": 2, "I": 2, "L": 4}
CT_SUB = {"PRE": 1, "ACC": 2, "EN": 15, "TT": 14, "DN": 13, "CU": 15, "CD": 14, "OV": 12, "UN": 11, "UA": 10}
DIGITS = "0123456789"


def _number(s, pos, max_digits):
    """decimal digits at s[pos:], at most max_digits; -> (value, next pos) or None"""
    end = pos
    while end < len(s) and s[end] in DIGITS and end - pos < max_digits:
        end += 1
    if end == pos:
        return None
    if end < len(s) and s[end] in DIGITS:
        return None            # a longer digit run is not a shorter number followed by junk
    return int(s[pos:end]), end


def _count(s, pos):
    """optional {n} at s[pos:], must end the string; -> count or None"""
    if pos == len(s):
        return 1
    if s[pos] != "{" or not s.endswith("}"):
        return None
    body = s[pos + 1:-1]
    if len(body) == 0 or any(ch not in DIGITS for ch in body):
        return None
    return int(body)


def parse_address(addr):
    """-> dict(file_type, file_number, element, sub_element, bit_address, count, word) or None if outside the grammar"""
    if not isinstance(addr, str):
        return None
    s = addr.upper()
    # timers / counters
    if len(s) > 1 and s[0] in "TC" and s[1] in DIGITS:
        r = _number(s, 1, 3)
        if r is None or r[1] >= len(s) or s[r[1]] != ":":
            return None
        file_number, p = r
        r = _number(s, p + 1, 3)
        if r is None:
            return None
        element, p = r
        if p >= len(s) or s[p + 1:] not in CT_SUB:     # any single separator character, as documented: T4:0.ACC
            return None
        if not (1 <= file_number <= 255 and element <= 255):
            return None
        return {"file_type": s[0], "file_number": file_number, "element": element, "sub_element": CT_SUB[s[p + 1:]],
                "bit_address": True, "count": 1, "word": 0}
    if s.startswith("ST") or (len(s) > 0 and s[0] == "A"):
        ft = "ST" if s.startswith("ST") else "A"
        r = _number(s, len(ft), 3)
        if r is None or r[1] >= len(s) or s[r[1]] != ":":
            return None
        file_number, p = r
        r = _number(s, p + 1, 4)
        if r is None:
            return None
        element, p = r
        count = _count(s, p)
        if count is None or not (1 <= file_number <= 255 and element <= 255):
            return None
        if ft == "ST" and count not in (1, 2):
            return None
        return {"file_type": ft, "file_number": file_number, "element": element, "sub_element": None, "bit_address": False,
                "count": count, "word": 0}
    if len(s) > 0 and s[0] == "S":
        if len(s) < 2 or s[1] != ":":
            return None
        r = _number(s, 2, 3)
        if r is None:
            return None
        element, p = r
        bit = None
        if p < len(s) and s[p] == "/":
            r = _number(s, p + 1, 2)
            if r is None:
                return None
            bit, p = r
        count = _count(s, p)
        if count is None or element > 255 or (bit is not None and bit > 15):
            return None
        return {"file_type": "S", "file_number": 2, "element": element, "sub_element": bit, "bit_address": bit is not None,
                "count": count, "word": 0}
    if len(s) > 0 and s[0] in "IO":
        p = 1
        r = _number(s, 1, 3)
        if r is not None:
            p = r[1]
        elif p < len(s) and s[p] in DIGITS:
            return None
        if p >= len(s) or s[p] != ":":
            return None
        r = _number(s, p + 1, 3)
        if r is None:
            return None
        element, p = r
        word = 0
        if p < len(s) and s[p] == ".":
            r = _number(s, p + 1, 3)
            if r is None:
                return None
            word, p = r
        bit = None
        if p < len(s) and s[p] == "/":
            r = _number(s, p + 1, 2)
            if r is None:
                return None
            bit, p = r
        count = _count(s, p)
        if count is None or element > 255 or (bit is not None and bit > 15):
            return None
        return {"file_type": s[0], "file_number": 0 if s[0] == "O" else 1, "element": element, "sub_element": bit,
                "bit_address": bit is not None, "count": count, "word": word}
    if len(s) > 0 and s[0] in "LFBN":
        r = _number(s, 1, 3)
        if r is None:
            return None
        file_number, p = r
        if p < len(s) and s[p] == "/" and s[0] == "B":
            r = _number(s, p + 1, 4)
            if r is None:
                return None
            n, p = r
            count = _count(s, p)
            if count is None or not (1 <= file_number <= 255) or n > 4095:
                return None
            return {"file_type": "B", "file_number": file_number, "element": n // 16, "sub_element": n % 16,
                    "bit_address": True, "count": count, "word": 0}
        if p >= len(s) or s[p] != ":":
            return None
        r = _number(s, p + 1, 3)
        if r is None:
            return None
        element, p = r
        bit = None
        if p < len(s) and s[p] == "/":
            r = _number(s, p + 1, 2)
            if r is None:
                return None
            bit, p = r
        count = _count(s, p)
        if count is None or not (1 <= file_number <= 255) or element > 255 or (bit is not None and bit > 15):
            return None
        return {"file_type": s[0], "file_number": file_number, "element": element, "sub_element": bit,
                "bit_address": bit is not None, "count": count, "word": 0}
    return None


def normalize(parsed):
    """the library's parse result in the oracle's terms (None stays None)"""
    if parsed is None:
        return None
    bit_address = parsed.get("address_field") == 3
    sub = parsed.get("sub_element")
    return {"file_type": parsed["file_type"], "file_number": int(parsed["file_number"]),
            "element": parsed["element_number"] if isinstance(parsed["element_number"], int) else
            (int(parsed["element_number"]) if isinstance(parsed["element_number"], str) else parsed["element_number"]),
            "sub_element": (sub if isinstance(sub, int) else (int(sub) if isinstance(sub, str) else sub)) if bit_address else None,
            "bit_address": bit_address, "count": parsed["element_count"], "word": int(parsed.get("pos_number", 0))}


def library_parse(addr):
    from pycomm3.slc_driver import parse_tag
    return normalize(parse_tag(addr))


# ------------------------------------------------------------------------------------------ message fields
def read_fields(file_type, file_number, element, word, count):
    """address part of a protected typed logical read: byte size, file number, file type, element, sub-element"""
    return bytes([ELEMENT_SIZE[file_type] * count, file_number, FILE_TYPE_CODE[file_type], element, word])


def bit_mask(bit):
    return bytes([(1 << bit) & 0xFF, ((1 << bit) >> 8) & 0xFF])


def apply_masked_write(old, mask, data):
    """the target's rule for FNC AB on one 16-bit word"""
    return (old & ~mask & 0xFFFF) | (data & mask)


def wellformed_parse(p):
    """the family of values parse_tag returns for addresses of the grammar (established by the exhaustive enumeration
    slc.parse_tag): the fields the message builders read, in the representation parse_tag uses"""
    if p is None:
        return True
    return (p["file_type"] in ELEMENT_SIZE and 0 <= int(p["file_number"]) <= 255 and 0 <= int(p["element_number"]) <= 255
            and p["address_field"] in (2, 3) and p["element_count"] >= 1)


def expected_read_value(file_type, bit_address, sub, count, data):
    """value a typed read must report for reply data `data` (little-endian elements)"""
    size = ELEMENT_SIZE[file_type]
    if bit_address:
        if file_type in ("T", "C") and sub == 1:
            return word_value(file_type, data[2:2 + size])
        if file_type in ("T", "C") and sub == 2:
            return word_value(file_type, data[4:4 + size])
        return ((word_value(file_type, data[0:size]) >> sub) & 1) == 1
    values = [word_value(file_type, data[i * size:(i + 1) * size]) for i in range(len(data) // size)]
    if len(values) == 1:
        return values[0]
    return values


def word_value(file_type, raw):
    """element codec: 16-bit signed for N/B/T/C/S/I/O, 32-bit signed for L"""
    from spec.cip_codec import decode_int
    if file_type == "L":
        return decode_int("DINT", raw)
    return decode_int("INT", raw)


def pccc_reply(head46, sts, data, tns=b"\x01\x00"):
    """a SendUnitData reply frame carrying an Execute PCCC reply (service 0x4B|0x80, CIP status 0): requestor id echo,
    command 0x4F, STS byte (offset 58), transaction number, then the function's data (offset 61)"""
    return head46 + b"\xcb\x00\x00\x00" + b"\x07\x09\x10\x09\x10\x19\x71" + b"\x4f" + bytes([sts]) + tns + data
