"""Message Router request / reply format (CIP Vol 1, 2-4) and the Unconnected Send service (3-5.5.4).

  request:  service USINT, request path size USINT (words), padded EPATH, service data
  reply:    reply service USINT (request service | 0x80), reserved USINT, general status USINT,
            size of additional status USINT (words), additional status, reply data
  Unconnected Send (service 0x52 to Connection Manager class 6 instance 1) service data:
            priority/time_tick USINT, time-out ticks USINT, embedded message size UINT, the embedded message
            request, one pad byte if that size is odd, route path size USINT (words), reserved USINT, route path
"""
from spec.cip_codec import le_uint
from spec import epath


class MessageError(Exception):
    pass


def parse_request(msg):
    """-> (service, path segments, service data)"""
    if len(msg) < 2:
        raise MessageError("too short")
    service = msg[0]
    words = msg[1]
    if 2 + 2 * words > len(msg):
        raise MessageError("path truncated")
    path = epath.parse_path(msg[2:2 + 2 * words], True)
    return (service, path, msg[2 + 2 * words:])


def try_parse_request(msg):
    try:
        return parse_request(msg)
    except (MessageError, epath.PathSyntaxError):
        return None


def parse_unconnected_send(msg):
    """-> (embedded message bytes, route segments); msg is the whole Unconnected Send request"""
    service, path, data = parse_request(msg)
    if service != 0x52 or path != [("logical", "class_id", 6), ("logical", "instance_id", 1)]:
        raise MessageError("not an Unconnected Send to the Connection Manager")
    if len(data) < 4:
        raise MessageError("truncated")
    size = data[2] + (data[3] << 8)
    if 4 + size > len(data):
        raise MessageError("embedded message truncated")
    embedded = data[4:4 + size]
    p = 4 + size
    if size % 2 == 1:
        if p >= len(data) or data[p] != 0:
            raise MessageError("missing pad byte")
        p = p + 1
    route = epath.parse_sized_path(data[p:], True)
    return (embedded, route)


def try_parse_unconnected_send(msg):
    try:
        return parse_unconnected_send(msg)
    except (MessageError, epath.PathSyntaxError):
        return None


def connected_reply(service, status, data, ext=b"\x00"):
    """a SendUnitData reply frame (encapsulation status 0) answering `service` with general status and data"""
    body = bytes([service | 0x80, 0, status]) + ext + data
    return (b"\x70\x00" + le_uint(22 + len(body), 2) + bytes(20) + bytes(16) + b"\xb1\x00" + le_uint(2 + len(body), 2) +
            b"\x01\x00" + body)


def unconnected_reply(service, status, data, ext=b"\x00"):
    body = bytes([service | 0x80, 0, status]) + ext + data
    return (b"\x6f\x00" + le_uint(16 + len(body), 2) + bytes(20) + bytes(12) + b"\xb2\x00" + le_uint(len(body), 2) + body)


def intended_path(class_code, instance, attribute):
    segs = [("logical", "class_id", epath.logical_value(class_code)), ("logical", "instance_id", epath.logical_value(instance))]
    if attribute:
        segs.append(("logical", "attribute_id", epath.logical_value(attribute)))
    return segs


def route_segments(pairs):
    """[(port number, link bytes)] -> parsed port segments"""
    return [("port", p, l) for (p, l) in pairs]
