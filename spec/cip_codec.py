"""Independent reference codec for the CIP elementary data types (CIP Vol 1, Appendix C-2 / C-6.1; Logix 5000
Data Access 1756-PM020 for the Logix specific string layouts).

    C-6.1: integers are transmitted least significant byte first, two's complement for the signed types;
    BOOL is one byte, 0 = FALSE, any other value TRUE, TRUE emitted as 0xFF (Logix convention);
    REAL / LREAL are IEEE-754 binary32 / binary64, least significant byte first;
    bit strings (BYTE/WORD/DWORD/LWORD) are unsigned integers of 8/16/32/64 bits, bit 0 = least significant;
    STRING = UINT character count + 1-byte characters; STRING2 = UINT count + 2-byte characters;
    SHORT_STRING = USINT count + 1-byte characters; STRINGN = UINT char size + UINT count + characters.
"""
from io import BytesIO

from pycomm3.exceptions import DataError, BufferEmptyError

#               name: (width in bytes, signed)          -- C-2 type codes in TYPE_CODES below
INT_TYPES = {
    "SINT": (1, True), "INT": (2, True), "DINT": (4, True), "LINT": (8, True),
    "USINT": (1, False), "UINT": (2, False), "UDINT": (4, False), "ULINT": (8, False),
    "STIME": (4, True), "DATE": (2, False), "TIME_OF_DAY": (4, False),
    "FTIME": (4, True), "LTIME": (8, True), "ITIME": (2, True), "TIME": (4, True),
}

BITSTRING_TYPES = {"BYTE": 1, "WORD": 2, "DWORD": 4, "LWORD": 8, "ENGUNIT": 2}

# CIP Vol 1 Table C-6.1 data type codes
TYPE_CODES = {
    0xC1: "BOOL", 0xC2: "SINT", 0xC3: "INT", 0xC4: "DINT", 0xC5: "LINT", 0xC6: "USINT", 0xC7: "UINT", 0xC8: "UDINT",
    0xC9: "ULINT", 0xCA: "REAL", 0xCB: "LREAL", 0xCC: "STIME", 0xCD: "DATE", 0xCE: "TIME_OF_DAY",
    0xCF: "DATE_AND_TIME", 0xD0: "STRING", 0xD1: "BYTE", 0xD2: "WORD", 0xD3: "DWORD", 0xD4: "LWORD",
    0xD5: "STRING2", 0xD6: "FTIME", 0xD7: "LTIME", 0xD8: "ITIME", 0xD9: "STRINGN", 0xDA: "SHORT_STRING",
    0xDB: "TIME", 0xDC: "EPATH", 0xDD: "ENGUNIT", 0xDE: "STRINGI",
}

WIDTHS = {"BOOL": 1, "REAL": 4, "LREAL": 8, "DATE_AND_TIME": 8}


def stream_of(buffer):
    if isinstance(buffer, bytes):
        return BytesIO(buffer)
    return buffer


def le_uint(v, n):
    """n-byte little-endian image of 0 <= v < 256**n"""
    return bytes([(v >> (8 * k)) & 0xFF for k in range(n)])


def from_le(data, n):
    u = 0
    for k in range(n):
        u = u + (data[k] << (8 * k))
    return u


def int_range(name):
    n, signed = INT_TYPES[name]
    if signed:
        return -(1 << (8 * n - 1)), (1 << (8 * n - 1)) - 1
    return 0, (1 << (8 * n)) - 1


def dom_int(name, value):
    lo, hi = int_range(name)
    return isinstance(value, int) and lo <= value and value <= hi


def encode_int(name, value):
    """C08: anything outside the type's domain is a DataError"""
    n, signed = INT_TYPES[name]
    if not isinstance(value, int):
        raise DataError("not an integer")
    lo, hi = int_range(name)
    if value < lo or value > hi:
        raise DataError("out of range")
    if value < 0:
        value = value + (1 << (8 * n))
    return le_uint(value, n)


def read_exact(stream, n):
    """C08: BufferEmptyError only when no byte remains where the value starts, DataError when it is cut short"""
    data = stream.read(n)
    if len(data) == 0:
        raise BufferEmptyError()
    if len(data) < n:
        raise DataError("truncated")
    return data


def decode_int(name, buffer):
    n, signed = INT_TYPES[name]
    if not isinstance(buffer, (bytes, BytesIO)):
        raise DataError("not a buffer")
    data = read_exact(stream_of(buffer), n)
    u = from_le(data, n)
    if signed and u >= (1 << (8 * n - 1)):
        u = u - (1 << (8 * n))
    return u


def encode_bool(value):
    return b"\xff" if value else b"\x00"


def decode_bool(buffer):
    if not isinstance(buffer, (bytes, BytesIO)):
        raise DataError("not a buffer")
    data = read_exact(stream_of(buffer), 1)
    return data[0] != 0
