"""Independent reference codec for the CIP elementary data types (CIP Vol 1, Appendix C-2 / C-6.1; Logix 5000
Data Access 1756-PM020 for the Logix specific string layouts).

    C-6.1: integers are transmitted least significant byte first, two's complement for the signed types;
    BOOL is one byte, 0 = FALSE, any other value TRUE, TRUE emitted as 0xFF (Logix convention);
    REAL / LREAL are IEEE-754 binary32 / binary64, least significant byte first;
    bit strings (BYTE/WORD/DWORD/LWORD) are unsigned integers of 8/16/32/64 bits, bit 0 = least significant;
    STRING = UINT character count + 1-byte characters; STRING2 = UINT count + 2-byte characters;
    SHORT_STRING = USINT count + 1-byte characters; STRINGN = UINT char size + UINT count + characters.
"""
from io import BytesIO

from pycomm3.exceptions import DataError, BufferEmptyError

#               name: (width in bytes, signed)          -- C-2 type codes in TYPE_CODES below
INT_TYPES = {
    "SINT": (1, True), "INT": (2, True), "DINT": (4, True), "LINT": (8, True),
    "USINT": (1, False), "UINT": (2, False), "UDINT": (4, False), "ULINT": (8, False),
    "STIME": (4, True), "DATE": (2, False), "TIME_OF_DAY": (4, False),
    "FTIME": (4, True), "LTIME": (8, True), "ITIME": (2, True), "TIME": (4, True),
}

BITSTRING_TYPES = {"BYTE": 1, "WORD": 2, "DWORD": 4, "LWORD": 8, "ENGUNIT": 2}

# CIP Vol 1 Table C-6.1 data type codes
TYPE_CODES = {
    0xC1: "BOOL", 0xC2: "SINT", 0xC3: "INT", 0xC4: "DINT", 0xC5: "LINT", 0xC6: "USINT", 0xC7: "UINT", 0xC8: "UDINT",
    0xC9: "ULINT", 0xCA: "REAL", 0xCB: "LREAL", 0xCC: "STIME", 0xCD: "DATE", 0xCE: "TIME_OF_DAY",
    0xCF: "DATE_AND_TIME", 0xD0: "STRING", 0xD1: "BYTE", 0xD2: "WORD", 0xD3: "DWORD", 0xD4: "LWORD",
    0xD5: "STRING2", 0xD6: "FTIME", 0xD7: "LTIME", 0xD8: "ITIME", 0xD9: "STRINGN", 0xDA: "SHORT_STRING",
    0xDB: "TIME", 0xDC: "EPATH", 0xDD: "ENGUNIT", 0xDE: "STRINGI",
}

WIDTHS = {"BOOL": 1, "REAL": 4, "LREAL": 8, "DATE_AND_TIME": 8}


def stream_of(buffer):
    if isinstance(buffer, bytes):
        return BytesIO(buffer)
    return buffer


def le_uint(v, n):
    """n-byte little-endian image of 0 <= v < 256**n"""
    return bytes([(v >> (8 * k)) & 0xFF for k in range(n)])


def from_le(data, n):
    u = 0
    for k in range(n):
        u = u + (data[k] << (8 * k))
    return u


def int_range(name):
    n, signed = INT_TYPES[name]
    if signed:
        return -(1 << (8 * n - 1)), (1 << (8 * n - 1)) - 1
    return 0, (1 << (8 * n)) - 1


def dom_int(name, value):
    lo, hi = int_range(name)
    return isinstance(value, int) and lo <= value and value <= hi


def encode_int(name, value):
    """C08: anything outside the type's domain is a DataError"""
    n, signed = INT_TYPES[name]
    if not isinstance(value, int):
        raise DataError("not an integer")
    lo, hi = int_range(name)
    if value < lo or value > hi:
        raise DataError("out of range")
    if value < 0:
        value = value + (1 << (8 * n))
    return le_uint(value, n)


def read_exact(stream, n):
    """C08: BufferEmptyError only when no byte remains where the value starts, DataError when it is cut short"""
    data = stream.read(n)
    if len(data) == 0:
        raise BufferEmptyError()
    if len(data) < n:
        raise DataError("truncated")
    return data


def decode_int(name, buffer):
    n, signed = INT_TYPES[name]
    if not isinstance(buffer, (bytes, BytesIO)):
        raise DataError("not a buffer")
    data = read_exact(stream_of(buffer), n)
    u = from_le(data, n)
    if signed and u >= (1 << (8 * n - 1)):
        u = u - (1 << (8 * n))
    return u


def encode_bool(value):
    return b"\xff" if value else b"\x00"


def decode_bool(buffer):
    if not isinstance(buffer, (bytes, BytesIO)):
        raise DataError("not a buffer")
    data = read_exact(stream_of(buffer), 1)
    return data[0] != 0


# ---------------------------------------------------------------------------------------------- floats
def encode_real(name, value):
    """REAL = IEEE-754 binary32, LREAL = binary64, least significant byte first (C-6.1).  A Python float that is
    finite but too large for binary32 is outside REAL's domain."""
    import struct
    if not isinstance(value, (int, float)):
        raise DataError("not a number")
    try:
        return struct.pack("<f" if name == "REAL" else "<d", value)
    except (OverflowError, struct.error):
        raise DataError("not representable")


def decode_real(name, buffer):
    import struct
    if not isinstance(buffer, (bytes, BytesIO)):
        raise DataError("not a buffer")
    n = 4 if name == "REAL" else 8
    data = read_exact(stream_of(buffer), n)
    return struct.unpack("<f" if name == "REAL" else "<d", data)[0]


# ---------------------------------------------------------------------------------------------- date and time
def encode_date_and_time(time, date):
    """DATE_AND_TIME = TIME_OF_DAY (UDINT, ms since midnight) followed by DATE (UINT, days since 1972-01-01)"""
    return encode_int("UDINT", time) + encode_int("UINT", date)


def decode_date_and_time(buffer):
    if not isinstance(buffer, (bytes, BytesIO)):
        raise DataError("not a buffer")
    stream = stream_of(buffer)
    t = from_le(read_exact(stream, 4), 4)
    d = stream.read(2)
    if len(d) < 2:
        raise DataError("truncated")
    return (t, from_le(d, 2))


# ---------------------------------------------------------------------------------------------- strings
#   kind: (width of the character-count prefix, width of one character)
STRING_TYPES = {"STRING": (2, 1), "STRING2": (2, 2), "SHORT_STRING": (1, 1), "LOGIX_STRING": (4, 1)}
TEXT_ENCODING = {1: "iso-8859-1", 2: "utf-16-le", 4: "utf-32-le"}


def text_bytes(value, char_width):
    """the characters as char_width-byte little-endian code units; a character that does not fit is a DataError"""
    try:
        data = value.encode(TEXT_ENCODING[char_width])
    except UnicodeEncodeError:
        raise DataError("character not representable")
    if len(data) != char_width * len(value):
        raise DataError("character not representable in one code unit")
    return data


def bytes_text(data, char_width):
    try:
        return data.decode(TEXT_ENCODING[char_width])
    except UnicodeDecodeError:
        raise DataError("malformed characters")


def encode_string(kind, value):
    pw, cw = STRING_TYPES[kind]
    if not isinstance(value, str):
        raise DataError("not a string")
    if len(value) >= (1 << (8 * pw)):
        raise DataError("too long for the count prefix")
    return le_uint(len(value), pw) + text_bytes(value, cw)


def decode_string(kind, buffer):
    pw, cw = STRING_TYPES[kind]
    if not isinstance(buffer, (bytes, BytesIO)):
        raise DataError("not a buffer")
    stream = stream_of(buffer)
    n = from_le(read_exact(stream, pw), pw)
    if n == 0:
        return ""
    data = stream.read(n * cw)
    if len(data) < n * cw:
        raise DataError("truncated string")
    return bytes_text(data, cw)


def encode_stringn(value, char_size):
    """STRINGN = UINT character size, UINT character count, characters of that size"""
    if not isinstance(value, str):
        raise DataError("not a string")
    if isinstance(char_size, bool) or not isinstance(char_size, int) or (char_size != 1 and char_size != 2 and char_size != 4):
        raise DataError("unsupported character size")
    if len(value) > 65535:
        raise DataError("too long")
    if char_size == 1:
        # one byte per character: the characters must be single-byte in the type's encoding (UTF-8 => ASCII)
        try:
            data = value.encode("ascii")
        except UnicodeEncodeError:
            raise DataError("character needs more than one byte")
    else:
        data = text_bytes(value, char_size)
    return le_uint(char_size, 2) + le_uint(len(value), 2) + data


# ---------------------------------------------------------------------------------------------- byte strings
def encode_nbytes(size, value):
    """n_bytes(size): exactly `size` raw bytes (size == -1: all of them)"""
    if not isinstance(value, (bytes, bytearray)):
        raise DataError("not bytes")
    if size == -1:
        return bytes(value)
    if len(value) < size:
        raise DataError("too few bytes")
    return bytes(value[:size])


def decode_nbytes(size, buffer):
    if not isinstance(buffer, (bytes, BytesIO)):
        raise DataError("not a buffer")
    stream = stream_of(buffer)
    if size == -1:
        data = stream.read()
        if len(data) == 0:
            raise BufferEmptyError()
        return data
    if size == 0:
        return b""
    return read_exact(stream, size)


# ---------------------------------------------------------------------------------------------- bit strings
def encode_bits(name, value):
    """bit i of the unsigned integer is element i of the list (bit 0 = least significant, first on the wire)"""
    n = BITSTRING_TYPES[name]
    if not isinstance(value, (list, tuple)):
        raise DataError("not a sequence of bools")
    if len(value) != 8 * n:
        raise DataError("wrong number of bits")
    u = 0
    for i in range(8 * n):
        if value[i]:
            u = u + (1 << i)
    return le_uint(u, n)


def decode_bits(name, buffer):
    n = BITSTRING_TYPES[name]
    if not isinstance(buffer, (bytes, BytesIO)):
        raise DataError("not a buffer")
    data = read_exact(stream_of(buffer), n)
    u = from_le(data, n)
    return [((u >> i) & 1) == 1 for i in range(8 * n)]
