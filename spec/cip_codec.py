"""Independent reference codec for the CIP elementary data types (CIP Vol 1, Appendix C-2 / C-6.1; Logix 5000
Data Access 1756-PM020 for the Logix specific string layouts).

    C-6.1: integers are transmitted least significant byte first, two's complement for the signed types;
    BOOL is one byte, 0 = FALSE, any other value TRUE, TRUE emitted as 0xFF (Logix convention);
    REAL / LREAL are IEEE-754 binary32 / binary64, least significant byte first;
    bit strings (BYTE/WORD/DWORD/LWORD) are unsigned integers of 8/16/32/64 bits, bit 0 = least significant;
    STRING = UINT character count + 1-byte characters; STRING2 = UINT count + 2-byte characters;
    SHORT_STRING = USINT count + 1-byte characters; STRINGN = UINT char size + UINT count + characters.
"""
from io import BytesIO

from pycomm3.exceptions import DataError, BufferEmptyError

#               name: (width in bytes, signed)          -- C-2 type codes in TYPE_CODES below
INT_TYPES = {
    "SINT": (1, True), "INT": (2, True), "DINT": (4, True), "LINT": (8, True),
    "USINT": (1, False), "UINT": (2, False), "UDINT": (4, False), "ULINT": (8, False),
    "STIME": (4, True), "DATE": (2, False), "TIME_OF_DAY": (4, False),
    "FTIME": (4, True), "LTIME": (8, True), "ITIME": (2, True), "TIME": (4, True),
}

BITSTRING_TYPES = {"BYTE": 1, "WORD": 2, "DWORD": 4, "LWORD": 8, "ENGUNIT": 2}

# CIP Vol 1 Table C-6.1 data type codes
TYPE_CODES = {
    0xC1: "BOOL", 0xC2: "SINT", 0xC3: "INT", 0xC4: "DINT", 0xC5: "LINT", 0xC6: "USINT", 0xC7: "UINT", 0xC8: "UDINT",
    0xC9: "ULINT", 0xCA: "REAL", 0xCB: "LREAL", 0xCC: "STIME", 0xCD: "DATE", 0xCE: "TIME_OF_DAY",
    0xCF: "DATE_AND_TIME", 0xD0: "STRING", 0xD1: "BYTE", 0xD2: "WORD", 0xD3: "DWORD", 0xD4: "LWORD",
    0xD5: "STRING2", 0xD6: "FTIME", 0xD7: "LTIME", 0xD8: "ITIME", 0xD9: "STRINGN", 0xDA: "SHORT_STRING",
    0xDB: "TIME", 0xDC: "EPATH", 0xDD: "ENGUNIT", 0xDE: "STRINGI",
}

WIDTHS = {"BOOL": 1, "REAL": 4, "LREAL": 8, "DATE_AND_TIME": 8}


def stream_of(buffer):
    if isinstance(buffer, bytes):
        return BytesIO(buffer)
    return buffer


def le_uint(v, n):
    """n-byte little-endian image of 0 <= v < 256**n"""
    return bytes([(v >> (8 * k)) & 0xFF for k in range(n)])


def from_le(data, n):
    u = 0
    for k in range(n):
        u = u + (data[k] << (8 * k))
    return u


def int_range(name):
    n, signed = INT_TYPES[name]
    if signed:
        return -(1 << (8 * n - 1)), (1 << (8 * n - 1)) - 1
    return 0, (1 << (8 * n)) - 1


def dom_int(name, value):
    lo, hi = int_range(name)
    return isinstance(value, int) and lo <= value and value <= hi


def encode_int(name, value):
    """C08: anything outside the type's domain is a DataError"""
    n, signed = INT_TYPES[name]
    if not isinstance(value, int):
        raise DataError("not an integer")
    lo, hi = int_range(name)
    if value < lo or value > hi:
        raise DataError("out of range")
    if signed and value < 0:
        value = value + (1 << (8 * n))
    return le_uint(value, n)


def read_exact(stream, n):
    """C08: BufferEmptyError only when no byte remains where the value starts, DataError when it is cut short"""
    data = stream.read(n)
    if len(data) == 0:
        raise BufferEmptyError()
    if len(data) < n:
        raise DataError("truncated")
    return data


def decode_int(name, buffer):
    n, signed = INT_TYPES[name]
    if not isinstance(buffer, (bytes, BytesIO)):
        raise DataError("not a buffer")
    data = read_exact(stream_of(buffer), n)
    u = from_le(data, n)
    if signed and u >= (1 << (8 * n - 1)):
        u = u - (1 << (8 * n))
    return u


def encode_bool(value):
    return b"\xff" if value else b"\x00"


def decode_bool(buffer):
    if not isinstance(buffer, (bytes, BytesIO)):
        raise DataError("not a buffer")
    data = read_exact(stream_of(buffer), 1)
    return data[0] != 0


# ---------------------------------------------------------------------------------------------- floats
def encode_real(name, value):
    """REAL = IEEE-754 binary32, LREAL = binary64, least significant byte first (C-6.1).  A Python float that is
    finite but too large for binary32 is outside REAL's domain."""
    import struct
    if not isinstance(value, (int, float)):
        raise DataError("not a number")
    try:
        return struct.pack("<f" if name == "REAL" else "<d", value)
    except (OverflowError, struct.error):
        raise DataError("not representable")


def decode_real(name, buffer):
    import struct
    if not isinstance(buffer, (bytes, BytesIO)):
        raise DataError("not a buffer")
    n = 4 if name == "REAL" else 8
    data = read_exact(stream_of(buffer), n)
    return struct.unpack("<f" if name == "REAL" else "<d", data)[0]


# ---------------------------------------------------------------------------------------------- date and time
def encode_date_and_time(time, date):
    """DATE_AND_TIME = TIME_OF_DAY (UDINT, ms since midnight) followed by DATE (UINT, days since 1972-01-01)"""
    return encode_int("UDINT", time) + encode_int("UINT", date)


def decode_date_and_time(buffer):
    if not isinstance(buffer, (bytes, BytesIO)):
        raise DataError("not a buffer")
    stream = stream_of(buffer)
    t = from_le(read_exact(stream, 4), 4)
    d = stream.read(2)
    if len(d) < 2:
        raise DataError("truncated")
    return (t, from_le(d, 2))


# ---------------------------------------------------------------------------------------------- strings
#   kind: (width of the character-count prefix, width of one character)
STRING_TYPES = {"STRING": (2, 1), "STRING2": (2, 2), "SHORT_STRING": (1, 1), "LOGIX_STRING": (4, 1)}
TEXT_ENCODING = {1: "iso-8859-1", 2: "utf-16-le", 4: "utf-32-le"}


def text_bytes(value, char_width):
    """the characters as char_width-byte little-endian code units; a character that does not fit is a DataError"""
    try:
        data = value.encode(TEXT_ENCODING[char_width])
    except UnicodeEncodeError:
        raise DataError("character not representable")
    if len(data) != char_width * len(value):
        raise DataError("character not representable in one code unit")
    return data


def bytes_text(data, char_width):
    try:
        return data.decode(TEXT_ENCODING[char_width])
    except UnicodeDecodeError:
        raise DataError("malformed characters")


def encode_string(kind, value):
    pw, cw = STRING_TYPES[kind]
    if not isinstance(value, str):
        raise DataError("not a string")
    if len(value) >= (1 << (8 * pw)):
        raise DataError("too long for the count prefix")
    return le_uint(len(value), pw) + text_bytes(value, cw)


def decode_string(kind, buffer):
    pw, cw = STRING_TYPES[kind]
    if not isinstance(buffer, (bytes, BytesIO)):
        raise DataError("not a buffer")
    stream = stream_of(buffer)
    n = from_le(read_exact(stream, pw), pw)
    if n == 0:
        return ""
    data = stream.read(n * cw)
    if len(data) < n * cw:
        raise DataError("truncated string")
    return bytes_text(data, cw)


def encode_stringn(value, char_size):
    """STRINGN = UINT character size, UINT character count, characters of that size"""
    if not isinstance(value, str):
        raise DataError("not a string")
    if isinstance(char_size, bool) or not isinstance(char_size, int) or (char_size != 1 and char_size != 2 and char_size != 4):
        raise DataError("unsupported character size")
    if len(value) > 65535:
        raise DataError("too long")
    if char_size == 1:
        # one byte per character: the characters must be single-byte in the type's encoding (UTF-8 => ASCII)
        try:
            data = value.encode("ascii")
        except UnicodeEncodeError:
            raise DataError("character needs more than one byte")
    else:
        data = text_bytes(value, char_size)
    return le_uint(char_size, 2) + le_uint(len(value), 2) + data


# ---------------------------------------------------------------------------------------------- byte strings
def encode_nbytes(size, value):
    """n_bytes(size): exactly `size` raw bytes (size == -1: all of them)"""
    if not isinstance(value, (bytes, bytearray)):
        raise DataError("not bytes")
    if size == -1:
        return bytes(value)
    if len(value) < size:
        raise DataError("too few bytes")
    return bytes(value[:size])


def decode_nbytes(size, buffer):
    if not isinstance(buffer, (bytes, BytesIO)):
        raise DataError("not a buffer")
    stream = stream_of(buffer)
    if size == -1:
        data = stream.read()
        if len(data) == 0:
            raise BufferEmptyError()
        return data
    if size == 0:
        return b""
    return read_exact(stream, size)


# ---------------------------------------------------------------------------------------------- bit strings
def encode_bits(name, value):
    """bit i of the unsigned integer is element i of the list (bit 0 = least significant, first on the wire)"""
    n = BITSTRING_TYPES[name]
    if not isinstance(value, (list, tuple)):
        raise DataError("not a sequence of bools")
    if len(value) != 8 * n:
        raise DataError("wrong number of bits")
    u = 0
    for i in range(8 * n):
        if value[i]:
            u = u + (1 << i)
    return le_uint(u, n)


def decode_bits(name, buffer):
    n = BITSTRING_TYPES[name]
    if not isinstance(buffer, (bytes, BytesIO)):
        raise DataError("not a buffer")
    data = read_exact(stream_of(buffer), n)
    u = from_le(data, n)
    return [((u >> i) & 1) == 1 for i in range(8 * n)]


def decode_stringn(buffer):
    if not isinstance(buffer, (bytes, BytesIO)):
        raise DataError("not a buffer")
    stream = stream_of(buffer)
    cs = from_le(read_exact(stream, 2), 2)
    d = stream.read(2)
    if len(d) < 2:
        raise DataError("truncated")
    n = from_le(d, 2)
    if cs != 1 and cs != 2 and cs != 4:
        raise DataError("unsupported character size")
    data = stream.read(n * cs)
    if len(data) < n * cs:
        raise DataError("truncated")
    if cs == 1:
        try:
            return data.decode("utf-8")   # the library documents UTF-8 for 1-byte characters
        except UnicodeDecodeError:
            raise DataError("malformed characters")
    return bytes_text(data, cs)


# ---------------------------------------------------------------------------------------------- generic, by descriptor
#   descriptor := type name (str)                      elementary / string / bit-string type
#              |  ("array", n | None | type name, descriptor)
#              |  ("struct", ((member name | None, descriptor), ...))
#              |  ("nbytes", size)
def is_bits(desc):
    return isinstance(desc, str) and desc in BITSTRING_TYPES


def encode(desc, value):
    if isinstance(desc, str):
        if desc in INT_TYPES:
            return encode_int(desc, value)
        if desc == "BOOL":
            return encode_bool(value)
        if desc == "REAL" or desc == "LREAL":
            return encode_real(desc, value)
        if desc in STRING_TYPES:
            return encode_string(desc, value)
        if desc in BITSTRING_TYPES:
            return encode_bits(desc, value)
        raise DataError("unknown type")
    if desc[0] == "fixedstring":
        return encode_fixed_string(desc[1], value)
    if desc[0] == "nbytes":
        return encode_nbytes(desc[1], value)
    if desc[0] == "array":
        return encode_array(desc[1], desc[2], value)
    if desc[0] == "struct":
        return encode_struct(desc[1], value)
    raise DataError("unknown type")


def decode(desc, buffer):
    if not isinstance(buffer, (bytes, BytesIO)):
        raise DataError("not a buffer")
    stream = stream_of(buffer)
    if isinstance(desc, str):
        if desc in INT_TYPES:
            return decode_int(desc, stream)
        if desc == "BOOL":
            return decode_bool(stream)
        if desc == "REAL" or desc == "LREAL":
            return decode_real(desc, stream)
        if desc in STRING_TYPES:
            return decode_string(desc, stream)
        if desc in BITSTRING_TYPES:
            return decode_bits(desc, stream)
        raise DataError("unknown type")
    if desc[0] == "fixedstring":
        return decode_fixed_string(desc[1], stream)
    if desc[0] == "nbytes":
        return decode_nbytes(desc[1], stream)
    if desc[0] == "array":
        return decode_array(desc[1], desc[2], stream)
    if desc[0] == "struct":
        return decode_struct(desc[1], stream)
    raise DataError("unknown type")


def encode_array(length, elem, values):
    """T[n]: the first n values, concatenated (over-long input truncated, too short a DataError);
    T[LengthType]: the element count as LengthType, then all values; T[None]: all values.
    Arrays of bit strings take / give one flat list of bools, 8*width per element."""
    if not isinstance(values, (list, tuple)):
        raise DataError("not a sequence")
    if is_bits(elem):
        width = 8 * BITSTRING_TYPES[elem]
        if isinstance(length, int):
            if len(values) < length * width:
                raise DataError("too few bits")
            count = length
        else:
            if len(values) % width != 0:
                raise DataError("not a whole number of bit strings")
            count = len(values) // width
        items = [values[i * width:(i + 1) * width] for i in range(count)]
    else:
        if isinstance(length, int):
            if len(values) < length:
                raise DataError("too few values")
            count = length
        else:
            count = len(values)
        items = [values[i] for i in range(count)]
    out = b""
    if isinstance(length, str):
        out = encode_int(length, count)
    for it in items:
        out = out + encode(elem, it)
    return out


def decode_array(length, elem, stream):
    start = stream.tell()
    if length is None:
        out = []
        while True:
            here = stream.tell()
            if len(stream.getvalue()) == here:
                break
            out.append(decode_member(elem, stream, True))
        if len(out) == 0 and start == stream.tell():
            pass
        if is_bits(elem):
            return [b for it in out for b in it]
        return out
    if isinstance(length, str):
        count = decode_int(length, stream)
    else:
        count = length
        if count > 0 and len(stream.getvalue()) == start:
            raise BufferEmptyError()
    out = [decode_member(elem, stream, isinstance(length, str) or i > 0) for i in range(count)]
    if is_bits(elem):
        return [b for it in out for b in it]
    return out


def decode_member(desc, stream, inside):
    """a member of a composite: running out of bytes inside the composite is truncation, not emptiness"""
    if not inside:
        return decode(desc, stream)
    try:
        return decode(desc, stream)
    except BufferEmptyError:
        raise DataError("truncated")


def encode_struct(members, values):
    """members in declaration order; a dict supplies them by name, a sequence by position (one value per member)"""
    if isinstance(values, dict):
        out = b""
        for name, desc in members:
            if name not in values:
                raise DataError("missing member")
            out = out + encode(desc, values[name])
        return out
    if not isinstance(values, (list, tuple)):
        raise DataError("not a mapping or sequence")
    if len(values) != len(members):
        raise DataError("wrong number of values")
    out = b""
    for i in range(len(members)):
        out = out + encode(members[i][1], values[i])
    return out


def decode_struct(members, stream):
    out = {}
    first = True
    for name, desc in members:
        v = decode_member(desc, stream, not first)
        first = False
        if name is not None and name != "":
            out[name] = v
    return out


# ---------------------------------------------------------------------------------------------- Logix strings
def encode_fixed_string(capacity, text):
    """Logix string of a given capacity: LEN as DINT (UDINT on the wire), DATA = capacity bytes: the text truncated to
    the capacity, zero padded (1756-PM020 'String data type')"""
    if not isinstance(text, str):
        raise DataError("not a string")
    t = text[:capacity]
    try:
        data = t.encode("iso-8859-1")
    except UnicodeEncodeError:
        raise DataError("character not representable")
    return le_uint(len(t), 4) + data + bytes(capacity - len(t))


def decode_fixed_string(capacity, buffer):
    if not isinstance(buffer, (bytes, BytesIO)):
        raise DataError("not a buffer")
    stream = stream_of(buffer)
    n = from_le(read_exact(stream, 4), 4)
    data = stream.read(capacity)
    if len(data) < capacity:
        raise DataError("truncated string data")
    return data[:n].decode("iso-8859-1")


# ---------------------------------------------------------------------------------------------- STRINGI
#   USINT count, then per string: 3 ASCII characters of language, 1 byte type code of the string's type,
#   UINT character set, the string in that type (CIP Vol 1 C-5.2.5)
STRINGI_KINDS = {0xD0: "STRING", 0xD5: "STRING2", 0xD9: "STRINGN", 0xDA: "SHORT_STRING"}
STRINGI_CODES = {"STRING": 0xD0, "STRING2": 0xD5, "STRINGN": 0xD9, "SHORT_STRING": 0xDA}


def encode_stringi(entries):
    """entries: sequence of (text, kind, language, character set)"""
    if len(entries) > 255:
        raise DataError("too many strings")
    out = bytes([len(entries)])
    for entry in entries:
        text, kind, lang, char_set = entry
        if not isinstance(lang, str) or len(lang) != 3:
            raise DataError("language code is three characters")
        try:
            code = lang.encode("ascii")
        except UnicodeEncodeError:
            raise DataError("language code is ASCII")
        if kind == "STRINGN":
            body = encode_stringn(text, 1)
        else:
            body = encode_string(kind, text)
        out = out + code + bytes([STRINGI_CODES[kind]]) + encode_int("UINT", char_set) + body
    return out


def decode_stringi(buffer):
    if not isinstance(buffer, (bytes, BytesIO)):
        raise DataError("not a buffer")
    stream = stream_of(buffer)
    count = read_exact(stream, 1)[0]        # BufferEmptyError when nothing is left where the value starts
    strings, langs, char_sets = [], [], []
    for _ in range(count):
        lang = stream.read(3)
        if len(lang) < 3:
            raise DataError("truncated language code")
        code = stream.read(1)
        if len(code) < 1 or code[0] not in STRINGI_KINDS:
            raise DataError("unknown string type")
        cs = stream.read(2)
        if len(cs) < 2:
            raise DataError("truncated character set")
        kind = STRINGI_KINDS[code[0]]
        try:
            text = decode_stringn(stream) if kind == "STRINGN" else decode_string(kind, stream)
        except BufferEmptyError:
            raise DataError("truncated string")
        langs.append(lang.decode("iso-8859-1"))
        char_sets.append(from_le(cs, 2))
        strings.append(text)
    return strings, langs, char_sets


# ---------------------------------------------------------------------------------------------- PCCC (SLC / PLC-5) strings
#   A-file element: one 16-bit word holding two characters, the first in the HIGH byte (so swapped in the byte stream).
#   ST-file element: 42 words = LEN (0..82), then 82 characters word-swapped, NUL padded  (1747-RM001 / DF1 manual).
def swap_words(data):
    return bytes([data[i + 1 - 2 * (i % 2)] for i in range(len(data))])


def encode_pccc_ascii(value):
    if not isinstance(value, str) or len(value) < 2:
        raise DataError("two characters")
    data = text_bytes(value[:2], 1)
    return bytes([data[1], data[0]])


def decode_pccc_ascii(buffer):
    if not isinstance(buffer, (bytes, BytesIO)):
        raise DataError("not a buffer")
    data = read_exact(stream_of(buffer), 2)
    return bytes([data[1], data[0]]).decode("iso-8859-1")


def encode_pccc_string(value):
    if not isinstance(value, str) or len(value) > 82:
        raise DataError("at most 82 characters")
    data = text_bytes(value, 1)
    return le_uint(len(value), 2) + swap_words(data + bytes(82 - len(data)))


def decode_pccc_string(buffer):
    if not isinstance(buffer, (bytes, BytesIO)):
        raise DataError("not a buffer")
    stream = stream_of(buffer)
    n = from_le(read_exact(stream, 2), 2)
    data = stream.read(82)
    if len(data) < 82 or n > 82:
        raise DataError("malformed string element")
    return swap_words(data)[:n].decode("iso-8859-1")
