"""Nondeterministic choices of the assumed environment (peer socket, target device).

Symbolically the engine replaces these functions by fresh symbolic values (every choice is explored / quantified
over); natively they replay a schedule of integers (taken from a counter-model, or drawn at random by the bounded
stand-in)."""
SCHEDULE = []
_pos = [0]


def reset(schedule=()):
    SCHEDULE[:] = list(schedule)
    _pos[0] = 0


def nondet_int(lo, hi):
    """any integer in [lo, hi]"""
    if _pos[0] < len(SCHEDULE):
        v = SCHEDULE[_pos[0]]
        _pos[0] += 1
    elif SCHEDULE:
        v = SCHEDULE[-1]     # an exhausted schedule keeps repeating its last choice (e.g. "peer stays closed")
    else:
        v = lo
    if v < lo:
        v = lo
    if hi is not None and v > hi:
        v = hi
    return v


def nondet_bool():
    return nondet_int(0, 1) == 1
