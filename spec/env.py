"""Assumed contracts of the environment in executable form (DESIGN.md section 2).  Never proved."""
from spec.nondet import nondet_int


def le16(data, off):
    return data[off] + (data[off + 1] << 8)


class PeerSocket:
    """socket.socket while ONE reply frame `frame` is being delivered and `outgoing` is being sent (2.1):

    recv(n) returns any non-empty prefix of the bytes still to come (R7: possibly longer than n, as the
    repository's own mocks do), or b"" when the peer has closed, or raises OSError (error / timeout);
    once the whole frame has been delivered a further recv can only time out or see the close.
    send(b) accepts any k in 0..len(b) bytes (k == 0: connection broken) or raises OSError."""

    def __init__(self, frame=b""):
        self.frame = frame
        self.delivered = 0
        self.sent = b""
        self.faults = 0      # OSError raised or connection closed / broken so far

    def settimeout(self, t):
        return None

    def close(self):
        return None

    def recv(self, n):
        remaining = len(self.frame) - self.delivered
        mode = nondet_int(0, 2)
        if mode == 2:
            self.faults = self.faults + 1
            raise OSError("recv failed")
        if mode == 1:
            self.faults = self.faults + 1
            return b""
        if remaining == 0:
            # nothing more will come: a client that asks again only times out (not a fault of the peer)
            raise OSError("timed out")
        k = nondet_int(1, remaining)
        data = self.frame[self.delivered:self.delivered + k]
        self.delivered = self.delivered + k
        return data

    def send(self, data):
        mode = nondet_int(0, 1)
        if mode == 1:
            self.faults = self.faults + 1
            raise OSError("send failed")
        k = nondet_int(0, len(data))
        if k == 0 and len(data) > 0:
            self.faults = self.faults + 1      # accepting nothing of a non-empty buffer: connection broken
        self.sent = self.sent + data[:k]
        return k


def wellformed_frame(frame):
    """a reply frame: 24-byte encapsulation header whose length field (bytes 2-3) counts the bytes that follow"""
    return len(frame) >= 24 and len(frame) == 24 + le16(frame, 2)


class Transport:
    """Assumed contract of pycomm3.socket_.Socket as the driver sees it (proved separately in C12): send() delivers
    the whole message or raises CommError, receive() returns one reply frame or raises CommError."""

    def __init__(self, replies=(), fail_at=None):
        self.sent = []
        self.replies = list(replies)
        self.calls = 0            # number of send/receive calls so far
        self.fail_at = fail_at    # index of the call that raises CommError (None: no fault)
        self.closed = False

    def _tick(self):
        k = self.calls
        self.calls = self.calls + 1
        if self.fail_at is not None and k == self.fail_at:
            from pycomm3.exceptions import CommError
            raise CommError("transport fault")

    def connect(self, host, port):
        self._tick()

    def send(self, msg, timeout=0):
        self._tick()
        self.sent.append(msg)
        return len(msg)

    def receive(self, timeout=0):
        self._tick()
        if len(self.replies) == 0:
            from pycomm3.exceptions import CommError
            raise CommError("no reply")
        return self.replies.pop(0)

    def close(self):
        self.closed = True


class EchoResponse:
    """stand-in for an embedded service response: records what it was built from (used to isolate the parsing of
    the Multiple Service Packet reply itself from the parsing of the embedded replies, which have their own contracts)"""

    def __init__(self, request, raw):
        self.request = request
        self.raw = raw


class EchoRequest:
    response_class = EchoResponse
    type_ = "read"
    error = None

    def tag_only_message(self):
        return b""


# ---- replies of the assumed target (DESIGN 2.2): sessions and connections
def register_reply(session, status=0):
    """RegisterSession reply: the granted session handle in the header"""
    from spec.cip_codec import le_uint
    return b"\x65\x00\x04\x00" + le_uint(session, 4) + le_uint(status, 4) + bytes(8) + bytes(4) + b"\x01\x00\x00\x00"


def forward_open_reply(large, status, cid=b"\x11\x22\x33\x44"):
    """Forward Open reply through UCMM: on success the O->T connection id leads the reply data"""
    from spec.msgrouter import unconnected_reply
    return unconnected_reply(0x5B if large else 0x54, status, cid + bytes(22) if status == 0 else b"")


def forward_close_reply(status=0):
    from spec.msgrouter import unconnected_reply
    return unconnected_reply(0x4E, status, bytes(10) if status == 0 else b"")


def frame_kinds(frames):
    """what each sent frame is: 'register', 'unregister', 'fo-large', 'fo-standard', 'fclose', 'connected', 'ucmm', 'list-identity'"""
    from spec.encap import try_parse_frame
    out = []
    for f in frames:
        p = try_parse_frame(f)
        if p is None:
            out.append("malformed")
        elif p[0] == 0x65:
            out.append("register")
        elif p[0] == 0x66:
            out.append("unregister")
        elif p[0] == 0x63:
            out.append("list-identity")
        elif p[0] == 0x70:
            out.append("connected")
        else:
            svc = p[3][1][0] if len(p[3][1]) > 0 else -1
            out.append({0x5B: "fo-large", 0x54: "fo-standard", 0x4E: "fclose"}.get(svc, "ucmm"))
    return out


class Obj:
    """a plain record (stand-in for a response object where only a few attributes are read)"""

    def __init__(self, **kw):
        for k, v in kw.items():
            setattr(self, k, v)


def forward_open_size(frame):
    """the connection size a (Large) Forward Open request asks for -- the value the target will enforce; None when the
    frame is not a Forward Open or its two directions disagree"""
    from spec.encap import try_parse_frame
    p = try_parse_frame(frame)
    if p is None or p[0] != 0x6F:
        return None
    msg = p[3][1]
    if len(msg) < 2:
        return None
    data = msg[2 + 2 * msg[1]:]
    if msg[0] == 0x54 and len(data) >= 34:
        a, b = le16(data, 26) & 0x01FF, le16(data, 32) & 0x01FF
    elif msg[0] == 0x5B and len(data) >= 38:
        a, b = le16(data, 26), le16(data, 34)
    else:
        return None
    return a if a == b else None


class UdpSocket:
    """socket.socket(AF_INET, SOCK_DGRAM) during a ListIdentity broadcast: every device's reply arrives as one datagram, then
    recv times out"""

    def __init__(self, replies=()):
        self.replies = list(replies)
        self.sent = []
        self.bound = None

    def settimeout(self, t):
        return None

    def setsockopt(self, *a):
        return None

    def bind(self, addr):
        self.bound = addr

    def sendto(self, msg, addr):
        self.sent.append((msg, addr))
        return len(msg)

    def recv(self, n):
        if len(self.replies) > 0:
            return self.replies.pop(0)
        raise OSError("timed out")

    def close(self):
        return None


class SocketModule:
    """what pycomm3.cip_driver sees as the `socket` module while one UdpSocket is handed out"""
    AF_INET, SOCK_DGRAM, SOL_SOCKET, SO_BROADCAST = 2, 2, 1, 6
    error = OSError

    def __init__(self, sock, addresses=()):
        self._sock = sock
        self._addresses = list(addresses)       # local IPv4 addresses of this host
        self.AddressFamily = self               # socket.AddressFamily.AF_INET

    def socket(self, *a):
        return self._sock

    def gethostname(self):
        return "host"

    def getaddrinfo(self, host, port):
        return [(self.AF_INET, 1, 6, "", (ip, 0)) for ip in self._addresses] + [(10, 1, 6, "", ("::1", 0, 0, 0))]


def forward_open_path(frame):
    """the connection path (size byte + padded segments) that ends a (Large) Forward Open request; None if not one"""
    from spec.encap import try_parse_frame
    p = try_parse_frame(frame)
    if p is None or p[0] != 0x6F:
        return None
    msg = p[3][1]
    if len(msg) < 2:
        return None
    data = msg[2 + 2 * msg[1]:]
    if msg[0] == 0x54 and len(data) >= 35:
        return data[35:]
    if msg[0] == 0x5B and len(data) >= 39:
        return data[39:]
    return None


def connection_triad(frame):
    """(connection serial number, vendor id, originator serial number) named by a Forward Open / Large Forward Open / Forward Close
    request -- what a target identifies the connection by; None for any other frame"""
    from spec.encap import try_parse_frame
    p = try_parse_frame(frame)
    if p is None or p[0] != 0x6F:
        return None
    msg = p[3][1]
    if len(msg) < 2:
        return None
    data = msg[2 + 2 * msg[1]:]
    if msg[0] in (0x54, 0x5B) and len(data) >= 18:
        return (data[10:12], data[12:14], data[14:18])
    if msg[0] == 0x4E and len(data) >= 10:
        return (data[2:4], data[4:6], data[6:10])
    return None
