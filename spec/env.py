"""Assumed contracts of the environment in executable form (DESIGN.md section 2).  Never proved."""
from spec.nondet import nondet_int


def le16(data, off):
    return data[off] + (data[off + 1] << 8)


class PeerSocket:
    """socket.socket while ONE reply frame `frame` is being delivered and `outgoing` is being sent (2.1):

    recv(n) returns any non-empty prefix of the bytes still to come (R7: possibly longer than n, as the
    repository's own mocks do), or b"" when the peer has closed, or raises OSError (error / timeout);
    once the whole frame has been delivered a further recv can only time out or see the close.
    send(b) accepts any k in 0..len(b) bytes (k == 0: connection broken) or raises OSError."""

    def __init__(self, frame=b""):
        self.frame = frame
        self.delivered = 0
        self.sent = b""
        self.faults = 0      # OSError raised or connection closed / broken so far

    def settimeout(self, t):
        return None

    def close(self):
        return None

    def recv(self, n):
        remaining = len(self.frame) - self.delivered
        mode = nondet_int(0, 2)
        if mode == 2:
            self.faults = self.faults + 1
            raise OSError("recv failed")
        if mode == 1:
            self.faults = self.faults + 1
            return b""
        if remaining == 0:
            # nothing more will come: a client that asks again only times out (not a fault of the peer)
            raise OSError("timed out")
        k = nondet_int(1, remaining)
        data = self.frame[self.delivered:self.delivered + k]
        self.delivered = self.delivered + k
        return data

    def send(self, data):
        mode = nondet_int(0, 1)
        if mode == 1:
            self.faults = self.faults + 1
            raise OSError("send failed")
        k = nondet_int(0, len(data))
        if k == 0 and len(data) > 0:
            self.faults = self.faults + 1      # accepting nothing of a non-empty buffer: connection broken
        self.sent = self.sent + data[:k]
        return k


def wellformed_frame(frame):
    """a reply frame: 24-byte encapsulation header whose length field (bytes 2-3) counts the bytes that follow"""
    return len(frame) >= 24 and len(frame) == 24 + le16(frame, 2)
