"""Abstraction of a proved callee at its call sites.

`bytes_of(fn, *args)` is simply `fn(*args)` natively.  In the engine it is an *uninterpreted* value identified by
(fn, args): callers proved against it know nothing about the callee but "it returns fn(args)", which the callee's own
contract establishes for all arguments (modular verification: the caller never re-explores the callee's paths)."""


def bytes_of(fn, *args):
    return fn(*args)


# ---- a data type known ONLY by its codec contract ------------------------------------------------------------
# What C06-C08 establish for every concrete type, in executable form.  Array / Struct bodies are verified against this
# contract instead of against the bodies of particular element types: the result holds for every element type that
# satisfies it (every elementary / string / derived type under contract in contracts/codec_*.py).
def _image(label, value):
    return ("<%s:%r>" % (label, value)).encode()


def element_type(label="E", min_size=0, name=None):
    """decode(stream):  returns a value having consumed k bytes, min_size <= k <= bytes remaining;   or
                        raises BufferEmptyError having consumed nothing, only when no bytes remain;  or
                        raises DataError (having consumed any part of what remains).
       encode(value):   returns bytes that depend on the value only (`image`), or raises DataError."""
    from pycomm3.cip.data_types import DataType
    from pycomm3.exceptions import DataError, BufferEmptyError
    from spec.nondet import nondet_int

    class Elem(DataType):
        calls = []        # ghost log of decode calls: (start, end, outcome, value)
        encodes = []      # ghost log of encode calls: (value, ok)

        @classmethod
        def image(cls, value):
            return bytes_of(_image, label, value)

        @classmethod
        def encode(cls, value, *args, **kwargs):
            if nondet_int(0, 1) == 1:
                cls.encodes.append((value, False))
                raise DataError("value outside the domain of " + label)
            cls.encodes.append((value, True))
            return cls.image(value)

        @classmethod
        def decode(cls, buffer):
            stream = buffer
            start = stream.tell()
            remaining = len(stream.getvalue()) - start
            mode = nondet_int(0, 1)
            if mode == 1 or remaining < min_size:
                if remaining == 0:
                    cls.calls.append((start, start, "empty", None))
                    raise BufferEmptyError()
                k = nondet_int(0, remaining)
                stream.read(k)
                cls.calls.append((start, start + k, "error", None))
                raise DataError("malformed " + label)
            k = nondet_int(min_size, remaining)
            stream.read(k)
            value = (label, len(cls.calls))
            cls.calls.append((start, start + k, "ok", value))
            return value

    Elem.__name__ = label
    return Elem(name) if name is not None else Elem


def contiguous_ok(calls, start):
    """every logged decode succeeded and began where the previous one ended"""
    pos = start
    for c in calls:
        if c[2] != "ok" or c[0] != pos:
            return False
        pos = c[1]
    return True


def end_of(calls, start):
    return calls[-1][1] if calls else start


def member_calls(types):
    """decode log of a member list, in member order (each member type is its own abstract type)"""
    out = []
    for t in types:
        out = out + list(t.calls)
    return out


def called_in_order(types):
    """members are decoded front to back: once one has not been called (or failed), no later one is called"""
    stopped = False
    for t in types:
        if stopped and len(t.calls) > 0:
            return False
        if len(t.calls) > 1:
            return False
        if len(t.calls) == 0 or t.calls[0][2] != "ok":
            stopped = True
    return True
