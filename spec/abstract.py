"""Abstraction of a proved callee at its call sites.

`bytes_of(fn, *args)` is simply `fn(*args)` natively.  In the engine it is an *uninterpreted* value identified by
(fn, args): callers proved against it know nothing about the callee but "it returns fn(args)", which the callee's own
contract establishes for all arguments (modular verification: the caller never re-explores the callee's paths)."""


def bytes_of(fn, *args):
    return fn(*args)
