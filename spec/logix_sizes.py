"""Sizes of connected data items for the Logix tag services (1756-PM020), the oracle of C04.

  connected data item      = sequence count (2) + message router request / reply
  read reply               = reply service (1) reserved (1) status (1) ext size (1) + type (2; structures 4) + data
  multiple service request = service (1) + path size & path to the message router (1 + 4) + count (2) + offsets (2 each) + requests
  multiple service reply   = header (4) + count (2) + offsets (2 each) + replies
"""


def data_len(request):
    """bytes of tag data a read of this request returns"""
    info = request.tag_info
    if info["tag_type"] == "atomic":
        size = ELEMENT_BYTES[info["data_type"]]
    else:
        size = info["data_type"]["template"]["structure_size"]
    return size * request.elements


ELEMENT_BYTES = {"BOOL": 1, "SINT": 1, "INT": 2, "DINT": 4, "LINT": 8, "USINT": 1, "UINT": 2, "UDINT": 4, "ULINT": 8,
                 "REAL": 4, "LREAL": 8, "BYTE": 1, "WORD": 2, "DWORD": 4, "LWORD": 8}


def type_len(request):
    return 2 if request.tag_info["tag_type"] == "atomic" else 4


def read_reply_item(request):
    return 2 + 4 + type_len(request) + data_len(request)


def multi_read_reply_item(requests):
    total = 2 + 4 + 2
    for r in requests:
        total = total + 2 + 4 + type_len(r) + data_len(r)
    return total


def multi_request_item(requests):
    total = 2 + 1 + 5 + 2
    for r in requests:
        total = total + 2 + len(r.tag_only_message())
    return total


def is_multi(packet):
    return packet.type_ == "multi"


def request_ids(packets):
    """ids of the user requests carried by the packets, in packet order"""
    out = []
    for p in packets:
        if is_multi(p):
            for r in p.requests:
                out.append(r.request_id)
        else:
            out.append(p.request_id)
    return out


def reads_fit(packets, connection_size):
    """every packet's request item fits, and every non-fragmented read solicits a reply that fits"""
    for p in packets:
        if is_multi(p):
            if multi_request_item(p.requests) > connection_size:
                return False
            if multi_read_reply_item(p.requests) > connection_size:
                return False
        else:
            if len(p.build_message()) > connection_size:
                return False
            if p.tag_service != b"\x52" and read_reply_item(p) > connection_size:
                return False
    return True


def writes_fit(packets, connection_size):
    """every non-fragmented write packet fits the connection (fragmented ones are tiled by _send_write_fragmented)"""
    for p in packets:
        if is_multi(p):
            if multi_request_item(p.requests) > connection_size:
                return False
        elif p.tag_service != b"\x53":
            if len(p.build_message()) > connection_size:
                return False
    return True
