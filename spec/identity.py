"""Identity object (CIP Vol 1, 5-2, instance attributes 1-7 as returned by Get_Attributes_All) and the ListIdentity
reply item (CIP Vol 2, 2-4.2).

  identity:   vendor UINT, device (product) type UINT, product code UINT, revision major USINT, minor USINT,
              status WORD, serial number UDINT, product name SHORT_STRING
  ListIdentity item: item type UINT (0x0C), item length UINT, encapsulation protocol version UINT,
              socket address: sin_family INT, sin_port UINT (both big-endian), sin_addr 4 bytes, sin_zero 8 bytes,
              then the identity fields above, then state USINT
"""
from spec.cip_codec import le_uint


def identity_bytes(vendor, product_type, product_code, major, minor, status, serial, name):
    """status: the 2 status bytes; name: text of 0..255 Latin-1 characters"""
    return (le_uint(vendor, 2) + le_uint(product_type, 2) + le_uint(product_code, 2) + bytes([major, minor]) + status +
            le_uint(serial, 4) + bytes([len(name)]) + name.encode("iso-8859-1"))


def identity_view(vendor, product_type, product_code, major, minor, status, serial, name):
    """what the library must report for those fields"""
    from pycomm3.cip.status_info import VENDORS, PRODUCT_TYPES
    return {
        "vendor": VENDORS.get(vendor, "UNKNOWN"),
        "product_type": PRODUCT_TYPES.get(product_type, "UNKNOWN"),
        "product_code": product_code,
        "revision": {"major": major, "minor": minor},
        "status": status,
        "serial": format(serial, "08x"),
        "product_name": name,
    }


def list_identity_item(version, ip, identity, state, item_len=None):
    """ip: 4 address bytes"""
    body = (le_uint(version, 2) + b"\x00\x02" + b"\xaf\x12" + ip + bytes(8) + identity + bytes([state]))
    n = len(body) if item_len is None else item_len
    return b"\x0c\x00" + le_uint(n, 2) + body


def dotted(ip):
    return str(ip[0]) + "." + str(ip[1]) + "." + str(ip[2]) + "." + str(ip[3])
