"""C19 -- what a lookup in an enumerated code table must return, stated over the members the table *declares*
(the public, non-method attributes of its class body) and over nothing else."""


def declared(table, name):
    """the value the class body binds to `name`"""
    return vars(table)[name]


def value_key(table, value):
    """the key under which a value is found again: the value itself, or what the table's _value_key_ says"""
    f = vars(table).get("_value_key_")
    if f is None:
        return value
    return f(value)


def is_member_with_key(table, name, key):
    """`name` (any casing) is a declared member whose value carries `key`"""
    if not isinstance(name, str):
        return False
    for member, value in vars(table).items():
        if member.startswith("_") or isinstance(value, (classmethod, staticmethod)):
            continue
        if member.lower() == name.lower() and value_key(table, value) == key:
            return True
    return False


HEX = "0123456789abcdef"


def hex2(n):
    """at least two lowercase hex digits"""
    s = ""
    while True:
        s = HEX[n % 16] + s
        n = n // 16
        if n == 0:
            break
    if len(s) < 2:
        s = "0" + s
    return s
