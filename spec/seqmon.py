"""C17, bounded stand-in: run-time monitor of the sequence counts on the wire.  (Natively executed only.)

A driver is put on an assumed transport with its counter advanced to a chosen position (so that the 16-bit wrap falls at a
chosen phase of the operation), one scenario of connected operations is run, and the sequence counts of consecutive
connected frames are compared."""
import itertools

from spec import env, logix, msgrouter, encap
from spec.cip_codec import le_uint

HEAD = bytes(46)


def _driver(cls, position, replies):
    import pycomm3
    d = cls("10.0.0.1")
    d._session = 7
    d._target_cid = b"\x01\x02\x03\x04"
    d._target_is_connected = True
    d._connection_opened = True
    d._sequence = pycomm3.util.cycle(65535, start=1)
    for _ in range(position):          # the next count drawn is position + 1 (mod the wrap)
        next(d._sequence)
    t = env.Transport(replies)
    d._sock = t
    return d, t


def _dint_tag(name, iid, n=0):
    import pycomm3
    from pycomm3.cip.data_types import DINT, Array
    return {"tag_name": name, "tag_type": "atomic", "data_type": "DINT", "data_type_name": "DINT", "dim": 1 if n else 0,
            "dimensions": [n, 0, 0], "instance_id": iid, "type_class": Array(n, DINT) if n else DINT}


def counts(frames):
    out = []
    for f in frames:
        p = encap.try_parse_frame(f)
        if p is not None and p[0] == 0x70:
            out.append(p[3][2])
    return out


def scenario(name, position):
    """-> list of the sequence counts of the connected frames sent, in order"""
    import pycomm3
    ok = lambda svc, data=b"": HEAD + logix.sub_reply(svc, 0, data)
    more = lambda svc, data: HEAD + logix.sub_reply(svc, 6, data)
    if name == "generic_x4":
        d, t = _driver(pycomm3.CIPDriver, position, [msgrouter.connected_reply(0x0E, 0, b"ok")] * 4)
        for _ in range(4):
            d.generic_message(service=0x0E, class_code=1, instance=1, attribute=1)
    elif name == "read_multi_then_generic":
        d, t = _driver(pycomm3.LogixDriver, position,
                       [logix.multi_reply(HEAD, [logix.sub_reply(0x4C, 0, b"\xc4\x00" + bytes(4))] * 3), msgrouter.connected_reply(0x0E, 0, b"ok"),
                        HEAD + logix.sub_reply(0x4C, 0, b"\xc4\x00" + bytes(4))])
        d._tags = {n: _dint_tag(n, i + 1) for i, n in enumerate("abc")}
        d.read("a", "b", "c")
        d.generic_message(service=0x0E, class_code=1, instance=1, attribute=1)
        d.read("a")
    elif name == "read_fragmented":
        d, t = _driver(pycomm3.LogixDriver, position,
                       [more(0x52, b"\xc4\x00" + bytes(400)), more(0x52, b"\xc4\x00" + bytes(400)), ok(0x52, b"\xc4\x00" + bytes(400)),
                        HEAD + logix.sub_reply(0x4C, 0, b"\xc4\x00" + bytes(4))])
        d._cfg["connection_size"] = 500
        d._tags = {"big": _dint_tag("big", 1, 300), "a": _dint_tag("a", 2)}
        d.read("big{300}")
        d.read("a")
    elif name == "write_fragmented_and_bits":
        d, t = _driver(pycomm3.LogixDriver, position, [ok(0x53)] * 4 + [logix.multi_reply(HEAD, [logix.sub_reply(0x4D, 0)]), ok(0x4E)])
        d._cfg["connection_size"] = 500
        d._tags = {"big": _dint_tag("big", 1, 300), "a": _dint_tag("a", 2)}
        d.write(("big{300}", list(range(300))))
        d.write(("a", 5), ("a.3", True), ("a.4", False))
    elif name == "mixed_read_multi_and_fragmented":
        d, t = _driver(pycomm3.LogixDriver, position,
                       [logix.multi_reply(HEAD, [logix.sub_reply(0x4C, 0, b"\xc4\x00" + bytes(4))] * 2),
                        more(0x52, b"\xc4\x00" + bytes(600)), ok(0x52, b"\xc4\x00" + bytes(600))])
        d._cfg["connection_size"] = 500
        d._tags = {"big": _dint_tag("big", 1, 300), "a": _dint_tag("a", 2), "b": _dint_tag("b", 3)}
        d.read("a", "big{300}", "b")
    elif name == "slc_read_write":
        from spec import pccc
        d, t = _driver(pycomm3.SLCDriver, position, [pccc.pccc_reply(HEAD, 0, b"\x05\x00")] * 2 + [pccc.pccc_reply(HEAD, 0, b"")] * 2)
        d.read("N7:0")
        d.read("N7:1")
        d.write(("N7:0", 5))
        d.write(("B3/17", True))
    else:
        raise ValueError(name)
    return counts(t.sent)


SCENARIOS = ["generic_x4", "read_multi_then_generic", "read_fragmented", "write_fragmented_and_bits",
             "mixed_read_multi_and_fragmented", "slc_read_write"]


def adjacent_counts_differ(name, position):
    c = scenario(name, position)
    return len(c) >= 2 and all(a != b for a, b in zip(c, c[1:])) and all(1 <= x <= 65535 for x in c)
