"""EtherNet/IP encapsulation (CIP Vol 2, chapter 2): strict frame parser (oracle of C11) and reply classification
(oracle of C13).

  header (24 bytes): command UINT, length UINT (bytes that follow the header), session handle UDINT, status UDINT,
                     sender context 8 bytes, options UDINT.
  SendRRData 0x6F / SendUnitData 0x70 body: interface handle UDINT (0), timeout UINT, item count UINT (2),
      address item (type UINT, length UINT, data), data item (type UINT, length UINT, data):
      unconnected: null address item (type 0, length 0) + unconnected data item 0x00B2
      connected:   connected address item 0x00A1 (length 4, the connection id) + connected data item 0x00B1 whose
                   data starts with the 16-bit sequence count.
  RegisterSession 0x65 body: protocol version UINT (1), options UINT (0).  UnRegisterSession 0x66, ListIdentity 0x63: no body.
"""


class FrameError(Exception):
    pass


def le(data, pos, n):
    if pos + n > len(data):
        raise FrameError("truncated")
    v = 0
    for k in range(n):
        v = v + (data[pos + k] << (8 * k))
    return v


def parse_frame(frame):
    """-> (command, session, context, body description); raises FrameError if the bytes are not exactly one frame"""
    if len(frame) < 24:
        raise FrameError("shorter than a header")
    command = le(frame, 0, 2)
    length = le(frame, 2, 2)
    if length != len(frame) - 24:
        raise FrameError("length field does not count the bytes that follow")
    session = le(frame, 4, 4)
    if le(frame, 8, 4) != 0:
        raise FrameError("non-zero status in a request")
    context = frame[12:20]
    if le(frame, 20, 4) != 0:
        raise FrameError("non-zero options")
    body = frame[24:]
    if command == 0x65:
        if len(body) != 4 or le(body, 0, 2) != 1 or le(body, 2, 2) != 0:
            raise FrameError("bad RegisterSession body")
        return (command, session, context, ("register", 1, 0))
    if command == 0x66 or command == 0x63:
        if len(body) != 0:
            raise FrameError("unexpected body")
        return (command, session, context, ("empty",))
    if command == 0x6F or command == 0x70:
        if le(body, 0, 4) != 0:
            raise FrameError("interface handle must be 0")
        timeout = le(body, 4, 2)
        if le(body, 6, 2) != 2:
            raise FrameError("item count must be 2")
        atype = le(body, 8, 2)
        alen = le(body, 10, 2)
        if 12 + alen > len(body):
            raise FrameError("address item truncated")
        adata = body[12:12 + alen]
        p = 12 + alen
        dtype = le(body, p, 2)
        dlen = le(body, p + 2, 2)
        if p + 4 + dlen != len(body):
            raise FrameError("data item length does not match its contents")
        ddata = body[p + 4:]
        if command == 0x6F:
            if atype != 0 or alen != 0 or dtype != 0xB2:
                raise FrameError("SendRRData needs a null address item and an unconnected data item")
            return (command, session, context, ("unconnected", ddata))
        if atype != 0xA1 or alen != 4 or dtype != 0xB1:
            raise FrameError("SendUnitData needs a connected address item and a connected data item")
        if dlen < 2:
            raise FrameError("connected data without sequence count")
        return (command, session, context, ("connected", adata, le(ddata, 0, 2), ddata[2:]))
    raise FrameError("unknown command")


def try_parse_frame(frame):
    try:
        return parse_frame(frame)
    except FrameError:
        return None


# ------------------------------------------------------------------------------------------- replies (C13)
PARTIAL_OK = (0x52, 0x53, 0x55, 0x0A, 0x03)   # services that legitimately answer with status 6 (more data follows)


def signed32(v):
    return v - (1 << 32) if v >= (1 << 31) else v


def encap_status(raw):
    """None when the reply is too short to contain it"""
    if raw is None or len(raw) < 12:
        return None
    return le(raw, 8, 4)


def connected_success(raw):
    """SendUnitData reply: encapsulation status 0 and CIP general status 0 (or 6 for a service that continues);
    a reply too short to contain both status words is never a success"""
    if raw is None or len(raw) < 49:
        return False
    if le(raw, 8, 4) != 0:
        return False
    status = raw[48]
    service = raw[46]
    if service < 0x80:
        return False
    return status == 0 or (status == 6 and (service - 0x80) in PARTIAL_OK)


def unconnected_success(raw):
    if raw is None or len(raw) < 43:
        return False
    if le(raw, 8, 4) != 0:
        return False
    if raw[40] < 0x80:
        return False
    return raw[42] == 0


def names_status(text, status):
    """the error text names CIP general status `status`: its table text or its two-digit hex code"""
    from pycomm3.cip.status_info import SERVICE_STATUS
    from spec.tables import hex2
    known = SERVICE_STATUS.get(status)
    if known is not None and known in text:
        return True
    return hex2(status) in text


def names_extended(text, status, value):
    """the error text carries the extended status `value`: its table text or its hex code"""
    from pycomm3.cip.status_info import EXTEND_CODES
    known = EXTEND_CODES.get(status, {}).get(value)
    if known is not None and known in text:
        return True
    return format(value, "0>2x") in text


def extended_value(ext):
    """extended status carried by the bytes after the general status: size byte (in words), then the value;
    None when absent, of an unsupported size, or truncated"""
    if len(ext) < 1:
        return None
    size = ext[0]
    if size != 1 and size != 2:
        return None
    if len(ext) < 1 + 2 * size:
        return None
    return le(ext, 1, 2 * size)
