"""Connected-message sequence counter (CIP Vol 1 3-4.1: a 16-bit sequence count; a target discards a message whose
count equals that of the previous one).  Reference state machine for `pycomm3.util.cycle(stop, start)`."""


def successor(v, start, stop):
    """the value drawn after v"""
    if v < stop:
        return v + 1
    return start


def nth_after(v, k, start, stop):
    """closed form of k applications of successor, for start <= v <= stop and k >= 0"""
    n = stop - start + 1
    return start + ((v - start + k) % n)


# ---- access to a generator's position; the engine overrides both (it can set / read the generator frame directly)
def at_state(gen, v, current):
    """advance `gen`, whose last drawn value is `current`, until its last drawn value is v (natively: by drawing)"""
    guard = 0
    while current != v:
        current = next(gen)
        guard = guard + 1
        if guard > 70000:
            raise ValueError("state not reachable")
    return gen


def gen_args(gen):
    """(stop, start) the generator was created with"""
    f = gen.gi_frame.f_locals
    return (f["stop"], f["start"])


def gen_val(gen):
    """the counter value held by the suspended generator (its last drawn value, by the state invariant)"""
    return gen.gi_frame.f_locals["val"]
