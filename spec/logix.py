"""Logix 5000 Data Access (Rockwell 1756-PM020) message layouts: the oracle for request builders and reply demultiplexing.

  Multiple Service Packet (service 0x0A, class 2 instance 1):
      request data:  UINT number of services, UINT offset of each service (from the start of the count field),
                     then the embedded service requests back to back
      reply data:    UINT number of replies, UINT offset of each reply (same base), then the embedded replies
  Read Tag 0x4C:                path, UINT element count                      reply: type (2 or 4 bytes), data
  Read Tag Fragmented 0x52:     path, UINT element count, UDINT byte offset   reply: type, data; status 6 = more
  Write Tag 0x4D:               path, UINT type (or A0 02 + UINT structure handle), UINT element count, data
  Write Tag Fragmented 0x53:    path, type, UINT element count, UDINT byte offset, data
  Read Modify Write 0x4E:       path, UINT mask size, OR mask, AND mask (each mask size bytes)
"""
from spec.cip_codec import le_uint


def multi_body(parts):
    """count, offsets (relative to the count field), parts"""
    n = len(parts)
    out = le_uint(n, 2)
    off = 2 + 2 * n
    for p in parts:
        out = out + le_uint(off, 2)
        off = off + len(p)
    for p in parts:
        out = out + p
    return out


def multi_reply(head46, parts, status=0):
    """a SendUnitData reply frame carrying a Multiple Service Packet reply"""
    return head46 + bytes([0x8A, 0, status, 0]) + multi_body(parts)


def read_request(path, elements):
    return b"\x4c" + path + le_uint(elements, 2)


def read_fragmented_request(path, elements, offset):
    return b"\x52" + path + le_uint(elements, 2) + le_uint(offset, 4)


def write_request(path, type_field, elements, data):
    return b"\x4d" + path + type_field + le_uint(elements, 2) + data


def write_fragmented_request(path, type_field, elements, offset, data):
    return b"\x53" + path + type_field + le_uint(elements, 2) + le_uint(offset, 4) + data


def rmw_request(path, size, or_mask, and_mask):
    return b"\x4e" + path + le_uint(size, 2) + le_uint(or_mask, size) + le_uint(and_mask, size)
