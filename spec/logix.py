"""Logix 5000 Data Access (Rockwell 1756-PM020) message layouts: the oracle for request builders and reply demultiplexing.

  Multiple Service Packet (service 0x0A, class 2 instance 1):
      request data:  UINT number of services, UINT offset of each service (from the start of the count field),
                     then the embedded service requests back to back
      reply data:    UINT number of replies, UINT offset of each reply (same base), then the embedded replies
  Read Tag 0x4C:                path, UINT element count                      reply: type (2 or 4 bytes), data
  Read Tag Fragmented 0x52:     path, UINT element count, UDINT byte offset   reply: type, data; status 6 = more
  Write Tag 0x4D:               path, UINT type (or A0 02 + UINT structure handle), UINT element count, data
  Write Tag Fragmented 0x53:    path, type, UINT element count, UDINT byte offset, data
  Read Modify Write 0x4E:       path, UINT mask size, OR mask, AND mask (each mask size bytes)
"""
from spec.cip_codec import le_uint


def multi_body(parts):
    """count, offsets (relative to the count field), parts"""
    n = len(parts)
    out = le_uint(n, 2)
    off = 2 + 2 * n
    for p in parts:
        out = out + le_uint(off, 2)
        off = off + len(p)
    for p in parts:
        out = out + p
    return out


def multi_reply(head46, parts, status=0):
    """a SendUnitData reply frame carrying a Multiple Service Packet reply"""
    return head46 + bytes([0x8A, 0, status, 0]) + multi_body(parts)


def read_request(path, elements):
    return b"\x4c" + path + le_uint(elements, 2)


def read_fragmented_request(path, elements, offset):
    return b"\x52" + path + le_uint(elements, 2) + le_uint(offset, 4)


def write_request(path, type_field, elements, data):
    return b"\x4d" + path + type_field + le_uint(elements, 2) + data


def write_fragmented_request(path, type_field, elements, offset, data):
    return b"\x53" + path + type_field + le_uint(elements, 2) + le_uint(offset, 4) + data


def rmw_request(path, size, or_mask, and_mask):
    return b"\x4e" + path + le_uint(size, 2) + le_uint(or_mask, size) + le_uint(and_mask, size)


def le(data, pos, n):
    v = 0
    for k in range(n):
        v = v + (data[pos + k] << (8 * k))
    return v


def split_write_fragment(msg, path_len, type_len):
    """fields of a Write Tag Fragmented request whose path occupies path_len bytes"""
    p = 1 + path_len
    return {"service": msg[0], "path": msg[1:p], "type": msg[p:p + type_len], "elements": le(msg, p + type_len, 2),
            "offset": le(msg, p + type_len + 2, 4), "data": msg[p + type_len + 6:]}


def split_read_fragment(msg, path_len):
    p = 1 + path_len
    return {"service": msg[0], "path": msg[1:p], "elements": le(msg, p, 2), "offset": le(msg, p + 2, 4), "rest": msg[p + 6:]}


def write_fragments_tile(fragments, value, path, type_field, elements):
    """offsets start at 0 and are contiguous, the pieces concatenate to the value, the other fields never change"""
    expected_offset = 0
    joined = b""
    for f in fragments:
        if f["service"] != 0x53 or f["path"] != path or f["type"] != type_field or f["elements"] != elements:
            return False
        if f["offset"] != expected_offset or len(f["data"]) == 0:
            return False
        expected_offset = expected_offset + len(f["data"])
        joined = joined + f["data"]
    return joined == value


def read_fragment_reply(head46, status, type_field, chunk):
    """SendUnitData reply to Read Tag Fragmented: status 6 = more data follows"""
    return head46 + bytes([0xD2, 0, status, 0]) + type_field + chunk


# ------------------------------------------------------------------------------------------ values in controller memory
def rmw_masks(size, bits):
    """OR / AND masks of a Read Modify Write that sets bit b to v for every (b, v) in bits (later entries win):
    the target computes new = (old | or_mask) & and_mask on `size` bytes"""
    or_mask = 0
    and_mask = (1 << (8 * size)) - 1
    for b, v in bits:
        if v:
            or_mask = or_mask | (1 << b)
            and_mask = and_mask | (1 << b)
        else:
            or_mask = or_mask & ~(1 << b)
            and_mask = and_mask & ~(1 << b)
    return or_mask & ((1 << (8 * size)) - 1), and_mask & ((1 << (8 * size)) - 1)


def apply_rmw(old, or_mask, and_mask):
    return (old | or_mask) & and_mask


def logix_string_bytes(capacity, text):
    """Logix string structure: LEN (DINT) then DATA[capacity] (SINT array), text truncated to the capacity, zero padded"""
    t = text[:capacity]
    return le_uint(len(t), 4) + t.encode("iso-8859-1") + bytes(capacity - len(t))


def type_field(tag_info):
    """data type parameter of a write: the CIP type code, or A0 02 + structure handle for structures"""
    from spec.cip_codec import TYPE_CODES
    if tag_info["tag_type"] == "struct":
        return b"\xa0\x02" + le_uint(tag_info["data_type"]["template"]["structure_handle"], 2)
    for code, name in TYPE_CODES.items():
        if name == tag_info["data_type_name"]:
            return le_uint(code, 2)
    raise ValueError("unknown type")


def bool_array_request(index, count):
    """a BOOL array is stored as DWORDs: reading elements [index, index+count) needs DWORDs 0 .. ceil((index+count)/32)-1
    (the library reads from DWORD 0); writing needs index to be a multiple of 32"""
    total = index + count
    return (total + 31) // 32


def udt_bytes(size, members, bits, values):
    """structure image by template offsets: members = [(name, offset, encoded bytes getter descriptor)], BOOL members live
    in bit `bit` of the host byte at `offset`; every other byte is zero"""
    from spec import cip_codec
    image = [0] * size
    for name, offset, desc in members:
        raw = cip_codec.encode(desc, values[name])
        for k in range(len(raw)):
            image[offset + k] = raw[k]
    for name, (offset, bit) in bits.items():
        if values[name]:
            image[offset] = image[offset] | (1 << bit)
        else:
            image[offset] = image[offset] & ~(1 << bit) & 0xFF
    return bytes(image)


def udt_view(size, members, bits, hidden, data):
    """visible members of a structure image: typed members at their offsets, BOOL members from their host bits"""
    from spec import cip_codec
    out = {}
    for name, offset, desc in members:
        if name not in hidden:
            out[name] = cip_codec.decode(desc, data[offset:size])
    for name, (offset, bit) in bits.items():
        if name not in hidden:
            out[name] = ((data[offset] >> bit) & 1) == 1
    return out


def sub_reply(service, status, payload=b""):
    """an embedded (or stand-alone) service reply: reply service, reserved, general status, no extended status"""
    return bytes([service | 0x80, 0, status, 0]) + (payload if status == 0 or status == 6 else b"")


def parse_multi_request(msg):
    """embedded service requests of a Multiple Service Packet request (after the sequence count)"""
    if msg[:6] != b"\x0a\x02\x20\x02\x24\x01":
        return None
    n = le(msg, 6, 2)
    offs = [le(msg, 8 + 2 * i, 2) for i in range(n)]
    out = []
    for i in range(n):
        end = offs[i + 1] if i + 1 < n else len(msg) - 6
        out.append(msg[6 + offs[i]:6 + end])
    return out


def bit_of(value, bit):
    return ((value >> bit) & 1) == 1


# ------------------------------------------------------------------------------------------ tag list upload (C05)
def symbol_entry(instance, name, symbol_type, address, object_address, software_control, dims, access=None):
    """one entry of a Get Instance Attribute List reply for attributes 1, 2, 3, 5, 6, 8 (and 10 = external access, v18+)"""
    raw = name.encode("iso-8859-1")
    out = (le_uint(instance, 4) + le_uint(len(raw), 2) + raw + le_uint(symbol_type, 2) + le_uint(address, 4) +
           le_uint(object_address, 4) + le_uint(software_control, 4) + le_uint(dims[0], 4) + le_uint(dims[1], 4) + le_uint(dims[2], 4))
    if access is not None:
        out = out + bytes([access])
    return out


EXTERNAL_ACCESS_TEXT = {0: "Read/Write", 1: "Reserved", 2: "Read Only", 3: "None"}


def symbol_record(instance, name, symbol_type, address, object_address, software_control, dims, access=None):
    return {"instance_id": instance, "tag_name": name, "symbol_type": symbol_type, "symbol_address": address,
            "symbol_object_address": object_address, "software_control": software_control,
            "external_access": EXTERNAL_ACCESS_TEXT.get(access, "Unknown"), "dimensions": [dims[0], dims[1], dims[2]]}


def user_visible(name, symbol_type):
    """1756-PM020 'isolating user-created tags': program / routine / task / map / connection symbols and names starting with
    two underscores are system symbols; module I/O tags (name:I, :O, :C, :S) are kept; other names containing ':' are not;
    symbol type bit 12 marks system tags"""
    for prefix in ("Program:", "Routine:", "Task:"):
        if name.startswith(prefix):
            return False
    if "Map:" in name or "Cxn:" in name:
        return False
    io = any(x in name for x in (":I", ":O", ":C", ":S"))
    if (":" in name and not io) or name.startswith("__"):
        return False
    if symbol_type & 0x1000:
        return False
    return True


def json_typed(v):
    if v is None or isinstance(v, (str, int, float, bool)):
        return True
    if isinstance(v, (list, tuple)):
        return all(json_typed(x) for x in v)
    if isinstance(v, dict):
        return all(isinstance(k, str) and json_typed(x) for k, x in v.items())
    return False


def template_member_info(type_info, type_code, offset):
    return le_uint(type_info, 2) + le_uint(type_code, 2) + le_uint(offset, 4)
