"""Contracts for the elementary CIP codecs (C06, C07, C08)."""
from pyvc.api import contract, lemma, P

DT = "pycomm3.cip.data_types."
INT_NAMES = ["SINT", "INT", "DINT", "LINT", "USINT", "UINT", "UDINT", "ULINT", "STIME", "DATE", "TIME_OF_DAY",
             "FTIME", "LTIME", "ITIME", "TIME"]

WRONG_TYPES = [P.const("None"), P.const("'12'"), P.const("b'\\x01'"), P.const("1.5"), P.const("[1]"),
               P.const("{}"), P.any()]

contract(
    id="int.encode",
    func=DT + "DataType.encode",
    call="cls.encode(value)",
    bind={"cls": [DT + n for n in INT_NAMES]},
    params={"value": P.oneof(P.int(), P.bool(), *WRONG_TYPES)},
    ref="spec.cip_codec.encode_int(cls.__name__, value)",
    compare=["result", "exc"],
    props=["C06", "C07", "C08"],
)

contract(
    id="int.decode",
    func=DT + "DataType.decode",
    call="cls.decode(buffer)",
    bind={"cls": [DT + n for n in INT_NAMES]},
    params={"buffer": P.oneof(P.bytes(), P.stream(P.bytes()), P.const("None"), P.const("5"), P.any())},
    ref="spec.cip_codec.decode_int(cls.__name__, buffer)",
    compare=["result", "exc", "stream:buffer"],
    props=["C06", "C07", "C08"],
)

contract(
    id="bool.encode",
    func=DT + "DataType.encode",
    call="cls.encode(value)",
    bind={"cls": [DT + "BOOL"]},
    params={"value": P.oneof(P.int(), P.bool(), P.bytes(), P.const("None"), P.const("[]"), P.any())},
    ref="spec.cip_codec.encode_bool(value)",
    props=["C06", "C07", "C08"],
)

contract(
    id="bool.decode",
    func=DT + "DataType.decode",
    call="cls.decode(buffer)",
    bind={"cls": [DT + "BOOL"]},
    params={"buffer": P.oneof(P.bytes(), P.stream(P.bytes()), P.const("None"), P.any())},
    ref="spec.cip_codec.decode_bool(buffer)",
    compare=["result", "exc", "stream:buffer"],
    props=["C06", "C07", "C08"],
)

# ------------------------------------------------------------------ REAL / LREAL
for _n in ("REAL", "LREAL"):
    contract(
        id=f"real.encode.{_n}", func=DT + "DataType.encode", call="cls.encode(value)", bind={"cls": [DT + _n]},
        params={"value": P.oneof(P.float(), P.int(), P.bool(), P.const("None"), P.const("'1.0'"), P.any())},
        ref=f"spec.cip_codec.encode_real('{_n}', value)", props=["C06", "C07", "C08"])
    contract(
        id=f"real.decode.{_n}", func=DT + "DataType.decode", call="cls.decode(buffer)", bind={"cls": [DT + _n]},
        params={"buffer": P.oneof(P.bytes(), P.stream(P.bytes()), P.const("None"), P.any())},
        ref=f"spec.cip_codec.decode_real('{_n}', buffer)", compare=["result", "exc", "stream:buffer"],
        props=["C06", "C07", "C08"])

# ------------------------------------------------------------------ DATE_AND_TIME
contract(
    id="date_and_time.encode", func=DT + "DATE_AND_TIME.encode", call="cls.encode(time, date)",
    bind={"cls": [DT + "DATE_AND_TIME"]},
    params={"time": P.oneof(P.int(), P.const("None"), P.any()), "date": P.oneof(P.int(), P.const("'x'"), P.any())},
    ref="spec.cip_codec.encode_date_and_time(time, date)", props=["C06", "C07", "C08"])
contract(
    id="date_and_time.decode", func=DT + "DataType.decode", call="cls.decode(buffer)",
    bind={"cls": [DT + "DATE_AND_TIME"]},
    params={"buffer": P.oneof(P.bytes(), P.stream(P.bytes()), P.const("None"), P.any())},
    ref="spec.cip_codec.decode_date_and_time(buffer)", compare=["result", "exc", "stream:buffer"],
    props=["C06", "C07", "C08"])

# ------------------------------------------------------------------ strings
for _n, _maxcp in (("STRING", 0x10FFFF), ("SHORT_STRING", 0x10FFFF), ("LOGIX_STRING", 0x10FFFF), ("STRING2", 0xFFFF)):
    contract(
        id=f"string.encode.{_n}", func=DT + "DataType.encode", call="cls.encode(value)", bind={"cls": [DT + _n]},
        params={"value": P.oneof(P.str(maxcp=_maxcp), P.const("None"), P.const("b'ab'"), P.const("5"), P.any())},
        ref=f"spec.cip_codec.encode_string('{_n}', value)", props=["C06", "C07", "C08"])
    contract(
        id=f"string.decode.{_n}", func=DT + "DataType.decode", call="cls.decode(buffer)", bind={"cls": [DT + _n]},
        params={"buffer": P.oneof(P.bytes(), P.stream(P.bytes()), P.const("None"), P.any())},
        ref=f"spec.cip_codec.decode_string('{_n}', buffer)", compare=["result", "exc", "stream:buffer"],
        props=["C06", "C07", "C08"],
        bounded=("decoding arbitrary UTF-16 code units is outside the engine's string model" if _n == "STRING2" else None))
    contract(
        id=f"string.roundtrip.{_n}", func=DT + "DataType.decode", call="cls.decode(buffer)", bind={"cls": [DT + _n]},
        params={"value": P.str(maxcp=min(_maxcp, 0xFFFF) if _n == "STRING2" else 0xFF), "rest": P.bytes()},
        requires=[f"len(value) < {1 << (8 * {'STRING': 2, 'SHORT_STRING': 1, 'LOGIX_STRING': 4, 'STRING2': 2}[_n])}"],
        setup=[f"buffer = io.BytesIO(spec.cip_codec.encode_string('{_n}', value) + rest)"],
        ensures=["result == value", "buffer.read() == rest"],
        props=["C06", "C07"])

# ------------------------------------------------------------------ n_bytes
for _k in (0, 1, 2, 6, -1):
    contract(
        id=f"nbytes.encode.{_k}", func=DT + "DataType.encode", call="typ.encode(value)",
        bind={"typ": [f"{DT}n_bytes({_k})"]},
        params={"value": P.oneof(P.bytes(), P.const("None"), P.const("'ab'"), P.const("5"), P.any())},
        ref=f"spec.cip_codec.encode_nbytes({_k}, value)", props=["C06", "C07", "C08"])
    contract(
        id=f"nbytes.decode.{_k}", func=DT + "DataType.decode", call="typ.decode(buffer)",
        bind={"typ": [f"{DT}n_bytes({_k})"]},
        params={"buffer": P.oneof(P.bytes(), P.stream(P.bytes()), P.const("None"), P.any())},
        ref=f"spec.cip_codec.decode_nbytes({_k}, buffer)", compare=["result", "exc", "stream:buffer"],
        props=["C06", "C07", "C08"])

# ------------------------------------------------------------------ bit strings
for _n, _w in (("BYTE", 1), ("WORD", 2), ("DWORD", 4), ("LWORD", 8), ("ENGUNIT", 2)):
    contract(
        id=f"bits.encode.{_n}", func=DT + "DataType.encode", call="cls.encode(value)", bind={"cls": [DT + _n]},
        params={"value": P.oneof(P.list(P.bool(), 8 * _w), P.list(P.int(), 8 * _w), P.list(P.bool(), 8 * _w - 1),
                                 P.list(P.bool(), 8 * _w + 1), P.const("[]"), P.const("None"), P.const("5"), P.any())},
        ref=f"spec.cip_codec.encode_bits('{_n}', value)", props=["C06", "C07", "C08"])
    contract(
        id=f"bits.decode.{_n}", func=DT + "DataType.decode", call="cls.decode(buffer)", bind={"cls": [DT + _n]},
        params={"buffer": P.oneof(P.bytes(), P.stream(P.bytes()), P.const("None"), P.any())},
        ref=f"spec.cip_codec.decode_bits('{_n}', buffer)", compare=["result", "exc", "stream:buffer"],
        props=["C06", "C07", "C08"])
