"""Contracts for the elementary CIP codecs (C06, C07, C08)."""
from pyvc.api import contract, lemma, P

DT = "pycomm3.cip.data_types."
INT_NAMES = ["SINT", "INT", "DINT", "LINT", "USINT", "UINT", "UDINT", "ULINT", "STIME", "DATE", "TIME_OF_DAY",
             "FTIME", "LTIME", "ITIME", "TIME"]

WRONG_TYPES = [P.const("None"), P.const("'12'"), P.const("b'\\x01'"), P.const("1.5"), P.const("[1]"),
               P.const("{}"), P.any()]

contract(
    id="int.encode",
    func=DT + "DataType.encode",
    call="cls.encode(value)",
    bind={"cls": [DT + n for n in INT_NAMES]},
    params={"value": P.oneof(P.int(), P.bool(), *WRONG_TYPES)},
    ref="spec.cip_codec.encode_int(cls.__name__, value)",
    compare=["result", "exc"],
    props=["C06", "C07", "C08"],
)

contract(
    id="int.decode",
    func=DT + "DataType.decode",
    call="cls.decode(buffer)",
    bind={"cls": [DT + n for n in INT_NAMES]},
    params={"buffer": P.oneof(P.bytes(), P.stream(P.bytes()), P.const("None"), P.const("5"), P.any())},
    ref="spec.cip_codec.decode_int(cls.__name__, buffer)",
    compare=["result", "exc", "stream:buffer"],
    props=["C06", "C07", "C08"],
)

contract(
    id="bool.encode",
    func=DT + "DataType.encode",
    call="cls.encode(value)",
    bind={"cls": [DT + "BOOL"]},
    params={"value": P.oneof(P.int(), P.bool(), P.bytes(), P.const("None"), P.const("[]"), P.any())},
    ref="spec.cip_codec.encode_bool(value)",
    props=["C06", "C07", "C08"],
)

contract(
    id="bool.decode",
    func=DT + "DataType.decode",
    call="cls.decode(buffer)",
    bind={"cls": [DT + "BOOL"]},
    params={"buffer": P.oneof(P.bytes(), P.stream(P.bytes()), P.const("None"), P.any())},
    ref="spec.cip_codec.decode_bool(buffer)",
    compare=["result", "exc", "stream:buffer"],
    props=["C06", "C07", "C08"],
)
