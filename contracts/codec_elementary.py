"""Contracts for the elementary CIP codecs (C06, C07, C08)."""
from pyvc.api import contract, lemma, P

DT = "pycomm3.cip.data_types."
INT_NAMES = ["SINT", "INT", "DINT", "LINT", "USINT", "UINT", "UDINT", "ULINT", "STIME", "DATE", "TIME_OF_DAY",
             "FTIME", "LTIME", "ITIME", "TIME"]

WRONG_TYPES = [P.const("None"), P.const("'12'"), P.const("b'\\x01'"), P.const("1.5"), P.const("[1]"),
               P.const("{}"), P.any()]

contract(
    id="int.encode",
    func=DT + "DataType.encode",
    call="cls.encode(value)",
    bind={"cls": [DT + n for n in INT_NAMES]},
    params={"value": P.oneof(P.int(), P.bool(), *WRONG_TYPES)},
    ref="spec.cip_codec.encode_int(cls.__name__, value)",
    compare=["result", "exc"],
    props=["C06", "C07", "C08"],
)

contract(
    id="int.decode",
    func=DT + "DataType.decode",
    call="cls.decode(buffer)",
    bind={"cls": [DT + n for n in INT_NAMES]},
    params={"buffer": P.oneof(P.bytes(), P.stream(P.bytes()), P.const("None"), P.const("5"), P.any())},
    ref="spec.cip_codec.decode_int(cls.__name__, buffer)",
    compare=["result", "exc", "stream:buffer"],
    props=["C06", "C07", "C08"],
)

contract(
    id="bool.encode",
    func=DT + "DataType.encode",
    call="cls.encode(value)",
    bind={"cls": [DT + "BOOL"]},
    params={"value": P.oneof(P.int(), P.bool(), P.bytes(), P.const("None"), P.const("[]"), P.any())},
    ref="spec.cip_codec.encode_bool(value)",
    props=["C06", "C07", "C08"],
)

contract(
    id="bool.decode",
    func=DT + "DataType.decode",
    call="cls.decode(buffer)",
    bind={"cls": [DT + "BOOL"]},
    params={"buffer": P.oneof(P.bytes(), P.stream(P.bytes()), P.const("None"), P.any())},
    ref="spec.cip_codec.decode_bool(buffer)",
    compare=["result", "exc", "stream:buffer"],
    props=["C06", "C07", "C08"],
)

# ------------------------------------------------------------------ REAL / LREAL
for _n in ("REAL", "LREAL"):
    contract(
        id=f"real.encode.{_n}", func=DT + "DataType.encode", call="cls.encode(value)", bind={"cls": [DT + _n]},
        params={"value": P.oneof(P.float(), P.int(), P.bool(), P.const("None"), P.const("'1.0'"), P.any())},
        ref=f"spec.cip_codec.encode_real('{_n}', value)", props=["C06", "C07", "C08"])
    contract(
        id=f"real.decode.{_n}", func=DT + "DataType.decode", call="cls.decode(buffer)", bind={"cls": [DT + _n]},
        params={"buffer": P.oneof(P.bytes(), P.stream(P.bytes()), P.const("None"), P.any())},
        ref=f"spec.cip_codec.decode_real('{_n}', buffer)", compare=["result", "exc", "stream:buffer"],
        props=["C06", "C07", "C08"])

# ------------------------------------------------------------------ DATE_AND_TIME
contract(
    id="date_and_time.encode", func=DT + "DATE_AND_TIME.encode", call="cls.encode(time, date)",
    bind={"cls": [DT + "DATE_AND_TIME"]},
    params={"time": P.oneof(P.int(), P.const("None"), P.any()), "date": P.oneof(P.int(), P.const("'x'"), P.any())},
    ref="spec.cip_codec.encode_date_and_time(time, date)", props=["C06", "C07", "C08"])
contract(
    id="date_and_time.decode", func=DT + "DataType.decode", call="cls.decode(buffer)",
    bind={"cls": [DT + "DATE_AND_TIME"]},
    params={"buffer": P.oneof(P.bytes(), P.stream(P.bytes()), P.const("None"), P.any())},
    ref="spec.cip_codec.decode_date_and_time(buffer)", compare=["result", "exc", "stream:buffer"],
    props=["C06", "C07", "C08"])

# ------------------------------------------------------------------ strings
for _n, _maxcp in (("STRING", 0x10FFFF), ("SHORT_STRING", 0x10FFFF), ("LOGIX_STRING", 0x10FFFF), ("STRING2", 0xFFFF)):
    contract(
        id=f"string.encode.{_n}", func=DT + "DataType.encode", call="cls.encode(value)", bind={"cls": [DT + _n]},
        params={"value": P.oneof(P.str(maxcp=_maxcp), P.const("None"), P.const("b'ab'"), P.const("5"), P.any())},
        ref=f"spec.cip_codec.encode_string('{_n}', value)", props=["C06", "C07", "C08"])
    contract(
        id=f"string.decode.{_n}", func=DT + "DataType.decode", call="cls.decode(buffer)", bind={"cls": [DT + _n]},
        params={"buffer": P.oneof(P.bytes(), P.stream(P.bytes()), P.const("None"), P.any())},
        ref=f"spec.cip_codec.decode_string('{_n}', buffer)", compare=["result", "exc", "stream:buffer"],
        props=["C06", "C07", "C08"],
        bounded=("decoding arbitrary UTF-16 code units is outside the engine's string model" if _n == "STRING2" else None))
    contract(
        id=f"string.roundtrip.{_n}", func=DT + "DataType.decode", call="cls.decode(buffer)", bind={"cls": [DT + _n]},
        params={"value": P.str(maxcp=min(_maxcp, 0xFFFF) if _n == "STRING2" else 0xFF), "rest": P.bytes()},
        requires=[f"len(value) < {1 << (8 * {'STRING': 2, 'SHORT_STRING': 1, 'LOGIX_STRING': 4, 'STRING2': 2}[_n])}"],
        setup=[f"buffer = io.BytesIO(spec.cip_codec.encode_string('{_n}', value) + rest)"],
        ensures=["result == value", "buffer.read() == rest"],
        props=["C06", "C07"])

# ------------------------------------------------------------------ n_bytes
for _k in (0, 1, 2, 6, -1):
    contract(
        id=f"nbytes.encode.{_k}", func=DT + "DataType.encode", call="typ.encode(value)",
        bind={"typ": [f"{DT}n_bytes({_k})"]},
        params={"value": P.oneof(P.bytes(), P.const("None"), P.const("'ab'"), P.const("5"), P.any())},
        ref=f"spec.cip_codec.encode_nbytes({_k}, value)", props=["C06", "C07", "C08"])
    contract(
        id=f"nbytes.decode.{_k}", func=DT + "DataType.decode", call="typ.decode(buffer)",
        bind={"typ": [f"{DT}n_bytes({_k})"]},
        params={"buffer": P.oneof(P.bytes(), P.stream(P.bytes()), P.const("None"), P.any())},
        ref=f"spec.cip_codec.decode_nbytes({_k}, buffer)", compare=["result", "exc", "stream:buffer"],
        props=["C06", "C07", "C08"])

# ------------------------------------------------------------------ bit strings
for _n, _w in (("BYTE", 1), ("WORD", 2), ("DWORD", 4), ("LWORD", 8), ("ENGUNIT", 2)):
    contract(
        id=f"bits.encode.{_n}", func=DT + "DataType.encode", call="cls.encode(value)", bind={"cls": [DT + _n]},
        params={"value": P.oneof(P.list(P.bool(), 8 * _w), P.list(P.int(), 8 * _w), P.list(P.bool(), 8 * _w - 1),
                                 P.list(P.bool(), 8 * _w + 1), P.const("[]"), P.const("None"), P.const("5"), P.any())},
        ref=f"spec.cip_codec.encode_bits('{_n}', value)", props=["C06", "C07", "C08"])
    contract(
        id=f"bits.decode.{_n}", func=DT + "DataType.decode", call="cls.decode(buffer)", bind={"cls": [DT + _n]},
        params={"buffer": P.oneof(P.bytes(), P.stream(P.bytes()), P.const("None"), P.any())},
        ref=f"spec.cip_codec.decode_bits('{_n}', buffer)", compare=["result", "exc", "stream:buffer"],
        props=["C06", "C07", "C08"])

# frame condition: every decode returns a value of its own -- a caller that edits the list it got (read, flip a flag, write back)
# does not change what the next decode of the same bytes returns
for _n, _w in (("BYTE", 1), ("DWORD", 4)):
    contract(
        id=f"bits.decode.fresh.{_n}", func=DT + "DataType.decode", call="cls.decode(data)",
        bind={"cls": [DT + _n], "k": ["0", "3", str(8 * _w - 1)]}, params={"data": P.bytes(len=_w)},
        setup=["first = cls.decode(data)", "first[k] = not first[k]", "dropped = first.pop()"],
        ensures=[f"result == spec.cip_codec.decode_bits('{_n}', data)", "result is not first"], props=["C06", "C07"])

# ------------------------------------------------------------------ STRINGI (international string: count, then language / type / character set / string)
_SK = {"STRING": 0xFF, "SHORT_STRING": 0xFF, "STRING2": 0xFFFF, "STRINGN": 0x7F}
_LANG = P.oneof(P.str(maxcp=0x7F, minlen=3, maxlen=3), P.str(maxcp=0xFFFF, maxlen=5), P.const("None"), P.const("b'eng'"))
contract(
    id="stringi.encode.0", func=DT + "STRINGI.encode", call=DT + "STRINGI.encode()", ensures=["result == b'\\x00'"],
    props=["C06", "C07", "C08"])
for _k1 in _SK:
    contract(
        id=f"stringi.encode.1.{_k1}", func=DT + "STRINGI.encode", call=f"{DT}STRINGI.encode((text, {DT}{_k1}, lang, cs))",
        params={"text": P.oneof(P.str(maxcp=0xFFFF if _k1 == "STRING2" else 0x10FFFF), P.const("None"), P.const("5")), "lang": _LANG,
                "cs": P.oneof(P.int(), P.const("None"), P.const("'4'"))},
        ref=f"spec.cip_codec.encode_stringi([(text, '{_k1}', lang, cs)])", props=["C06", "C07", "C08"], max_paths=20000)
    contract(
        id=f"stringi.roundtrip.1.{_k1}", func=DT + "STRINGI.decode", call=DT + "STRINGI.decode(buffer)",
        params={"text": P.str(maxcp=_SK[_k1], maxlen=254), "lang": P.str(maxcp=0x7F, minlen=3, maxlen=3), "cs": P.int(0, 65535), "rest": P.bytes()},
        setup=[f"buffer = io.BytesIO(spec.cip_codec.encode_stringi([(text, '{_k1}', lang, cs)]) + rest)"],
        ensures=["result == ([text], [lang], [cs])", "buffer.read() == rest"], props=["C06", "C07"], max_paths=20000)
contract(
    id="stringi.encode.2", func=DT + "STRINGI.encode",
    call=f"{DT}STRINGI.encode((t1, kinds[0], l1, c1), (t2, kinds[1], l2, c2))",
    bind={"kinds": [f"({DT}STRING, {DT}STRING2)", f"({DT}SHORT_STRING, {DT}STRINGN)", f"({DT}STRINGN, {DT}STRING)"]},
    params={"t1": P.str(maxcp=0xFFFF), "t2": P.str(maxcp=0xFFFF), "l1": P.str(maxcp=0xFF, maxlen=4), "l2": P.str(maxcp=0x7F, minlen=3, maxlen=3),
            "c1": P.int(), "c2": P.int()},
    ref="spec.cip_codec.encode_stringi([(t1, kinds[0].__name__, l1, c1), (t2, kinds[1].__name__, l2, c2)])",
    props=["C06", "C07", "C08"], max_paths=20000)
contract(
    id="stringi.roundtrip.2", func=DT + "STRINGI.decode", call=DT + "STRINGI.decode(buffer)",
    bind={"kinds": ["('STRING', 'SHORT_STRING')", "('SHORT_STRING', 'STRINGN')", "('STRING2', 'STRING')"]},
    params={"t1": P.str(maxcp=0x7F, maxlen=254), "t2": P.str(maxcp=0x7F, maxlen=254), "l1": P.str(maxcp=0x7F, minlen=3, maxlen=3),
            "l2": P.str(maxcp=0x7F, minlen=3, maxlen=3), "c1": P.int(0, 65535), "c2": P.int(0, 65535), "rest": P.bytes()},
    setup=["buffer = io.BytesIO(spec.cip_codec.encode_stringi([(t1, kinds[0], l1, c1), (t2, kinds[1], l2, c2)]) + rest)"],
    ensures=["result == ([t1, t2], [l1, l2], [c1, c2])", "buffer.read() == rest"], props=["C06", "C07"], max_paths=20000)
# every truncation / corruption of a buffer: the reference decides; buffers of at most 2 entries of STRING / SHORT_STRING
contract(
    id="stringi.decode", func=DT + "STRINGI.decode", call=DT + "STRINGI.decode(buffer)",
    params={"buffer": P.oneof(P.bytes(maxlen=18), P.stream(P.bytes(maxlen=18)), P.const("None"), P.any())},
    ref="spec.cip_codec.decode_stringi(buffer)", compare=["result", "exc", "stream:buffer"], props=["C06", "C07", "C08"],
    max_paths=40000, note="buffer length bounded by 18 bytes (entries are at least 7 bytes): at most 2 entries; all contents",
    bounded="entries of type STRING2 / STRINGN decode UTF-16 / UTF-8 code units: outside the engine's string model")
contract(   # the part within the string model: one entry of a one-byte-character type, every truncation and corruption
    id="stringi.decode.latin1", func=DT + "STRINGI.decode", call=DT + "STRINGI.decode(buffer)",
    params={"data": P.bytes(maxlen=11), "as_stream": P.bool()},
    requires=["len(data) < 5 or (data[4] != 0xD5 and data[4] != 0xD9)"],
    setup=["buffer = io.BytesIO(data) if as_stream else data"],
    ref="spec.cip_codec.decode_stringi(buffer)", compare=["result", "exc", "stream:buffer"], props=["C06", "C07", "C08"],
    max_paths=40000)

# ------------------------------------------------------------------ PCCC string element types (exported by pycomm3.cip)
PC = "pycomm3.cip.pccc."
_WRONG = [P.const("None"), P.const("5"), P.const("b'ab'"), P.any()]
contract(
    id="pccc.ascii.encode", func=DT + "DataType.encode", call="cls.encode(value)", bind={"cls": [PC + "PCCC_ASCII"]},
    params={"value": P.oneof(P.str(maxcp=0xFFFF, maxlen=6), *_WRONG)},
    ref="spec.cip_codec.encode_pccc_ascii(value)", props=["C06", "C07", "C08"])
contract(
    id="pccc.ascii.decode", func=DT + "DataType.decode", call="cls.decode(buffer)", bind={"cls": [PC + "PCCC_ASCII"]},
    params={"buffer": P.oneof(P.bytes(), P.stream(P.bytes()), P.const("None"), P.any())},
    ref="spec.cip_codec.decode_pccc_ascii(buffer)", compare=["result", "exc", "stream:buffer"], props=["C06", "C07", "C08"])
contract(
    id="pccc.string.encode", func=DT + "DataType.encode", call="cls.encode(value)", bind={"cls": [PC + "PCCC_STRING"]},
    params={"value": P.oneof(P.str(maxcp=0xFFFF, maxlen=90), *_WRONG)},
    ref="spec.cip_codec.encode_pccc_string(value)", props=["C06", "C07", "C08"], max_paths=20000)
for _sfx, _req_d, _req_r, _tier in (("", "len(data) < 2 or data[0] + 256 * data[1] <= 3 or data[0] + 256 * data[1] >= 80",
                                     "len(value) <= 3 or len(value) >= 80", "quick"), (".all", None, None, "thorough")):
    contract(
        id="pccc.string.decode" + _sfx, func=DT + "DataType.decode", call="cls.decode(buffer)", bind={"cls": [PC + "PCCC_STRING"]},
        params={"data": P.oneof(P.bytes(maxlen=100), P.const("None"), P.any()), "as_stream": P.bool()},
        requires=[f"not isinstance(data, bytes) or ({_req_d})"] if _req_d else [],
        setup=["buffer = io.BytesIO(data) if as_stream and isinstance(data, bytes) else data"],
        ref="spec.cip_codec.decode_pccc_string(buffer)", compare=["result", "exc", "stream:buffer"], props=["C06", "C07", "C08"],
        max_paths=20000, tier=_tier, note="the quick tier takes the LEN fields 0..3 and >= 80, the thorough tier all of them")
    contract(
        id="pccc.string.roundtrip" + _sfx, func=DT + "DataType.decode", call="cls.decode(buffer)", bind={"cls": [PC + "PCCC_STRING"]},
        params={"value": P.str(maxcp=0xFF, maxlen=82), "rest": P.bytes()}, requires=[_req_r] if _req_r else [],
        setup=["buffer = io.BytesIO(spec.cip_codec.encode_pccc_string(value) + rest)"],
        ensures=["result == value", "buffer.read() == rest"], props=["C06", "C07"], max_paths=20000, tier=_tier)
contract(
    id="pccc.ascii.roundtrip", func=DT + "DataType.decode", call="cls.decode(buffer)", bind={"cls": [PC + "PCCC_ASCII"]},
    params={"value": P.str(maxcp=0xFF, minlen=2, maxlen=2), "rest": P.bytes()},
    setup=["buffer = io.BytesIO(spec.cip_codec.encode_pccc_ascii(value) + rest)"],
    ensures=["result == value", "buffer.read() == rest"], props=["C06", "C07"])
