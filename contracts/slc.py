"""C18 -- SLC addresses select the right file, element and bit; data round-trips.

`parse_tag` is regex code.  Two lines of defence: (a) contracts `slc.parse_tag.*` on CONSTRUCTED addresses -- the engine interprets
the regular expressions over symbolic numerals and letter casings (pyvc/rx.py), so extraction and range checks are proved for all
numerals of every shape of the grammar; (b) an EXHAUSTIVE native enumeration of the address grammar, junk included, against the
hand-written oracle parser spec/pccc.py (bounded stand-in, never counted as proved).
Everything downstream of it (message fields, masks, reply extraction) is proved given parse_tag's postcondition."""
import itertools

from pyvc.api import contract, P


def addresses(tier):
    full = tier == "thorough"
    files = [0, 1, 2, 7, 9, 10, 99, 100, 254, 255, 256, 999] if not full else list(range(0, 258)) + [999]
    elems = [0, 1, 9, 10, 15, 16, 99, 100, 254, 255, 256, 999, 1000] if not full else list(range(0, 258)) + [999, 1000, 4095, 4096]
    bits = [None, 0, 1, 9, 10, 15, 16, 99, 100]
    counts = [None, 1, 2, 10, 41]
    seen = 0
    for ft in ("N", "B", "F", "L", "n", "b"):
        for f in files:
            for e in elems:
                for b in bits:
                    for c in counts:
                        yield {"address": f"{ft}{f}:{e}" + (f"/{b}" if b is not None else "") + (f"{{{c}}}" if c is not None else "")}
    for f in files:            # binary bit form
        for n in ([0, 1, 15, 16, 17, 31, 32, 255, 256, 4095, 4096, 9999, 10000] if not full else range(0, 4200)):
            for c in (None, 1, 3):
                yield {"address": f"B{f}/{n}" + (f"{{{c}}}" if c is not None else "")}
    for ft in ("S", "s"):
        for e in elems:
            for b in bits:
                for c in counts[:3]:
                    yield {"address": f"{ft}:{e}" + (f"/{b}" if b is not None else "") + (f"{{{c}}}" if c is not None else "")}
    for ft in ("I", "O", "i"):
        for fnum in ("", "0", "1", "7"):
            for e in elems[:9]:
                for w in (None, 0, 1, 255, 256):
                    for b in bits[:6]:
                        for c in counts[:2]:
                            yield {"address": f"{ft}{fnum}:{e}" + (f".{w}" if w is not None else "") + (f"/{b}" if b is not None else "") +
                                              (f"{{{c}}}" if c is not None else "")}
    for ft in ("T", "C", "t"):
        for f in files:
            for e in elems[:10]:
                for sub in ("ACC", "PRE", "EN", "DN", "TT", "CU", "CD", "OV", "UN", "UA", "acc", "Pre", "XX", "", "ACCX"):
                    for sep in (".", "/"):
                        yield {"address": f"{ft}{f}:{e}{sep}{sub}"}
    for ft in ("ST", "A", "st"):
        for f in files:
            for e in elems:
                for c in (None, 1, 2, 3):
                    yield {"address": f"{ft}{f}:{e}" + (f"{{{c}}}" if c is not None else "")}
    # outside the grammar: unsupported types, junk, over-long digit runs
    for a in ("", "N", "N7", "N7:", "N:0", "X7:0", "R6:0", "D9:0", "N7:0/", "N7:0{", "N7:0{}", "N7:0{a}", "N7;0", "7:0", "N7:0 ",
              " N7:0", "N7:0/1/2", "NN7:0", "N7:00000", "N0007:0", "B3/", "B/3", "S2:0", "S:", "T4:0", "T4:0.", "C5:0.AC",
              "N7:1000", "N7:0/100", "N1000:0", "F8:2.5", "L9:0x", "I:0.1.2", "O:"):
        yield {"address": a}


contract(
    id="slc.parse_tag", func="pycomm3.slc_driver.parse_tag", call="spec.pccc.library_parse(address)",
    ref="spec.pccc.parse_address(address)", params={"address": P.str()},
    enum=addresses, props=["C18"], callsite=False,
    bounded="regular expressions with capture groups are outside the engine; exhaustive enumeration of the address grammar instead")


# ---- downstream of parse_tag: proved for every value parse_tag can return (spec.pccc.wellformed_parse)
# call-site stand-in: the driver methods see parse_tag(tag) as "one of the well-formed parse results" -- their ghost input
# `parsed` -- which is parse_tag's postcondition as decided by the exhaustive enumeration above (assumed here, not proved).
# It is installed by the setup line `pycomm3.slc_driver.parse_tag = lambda tag: parsed` in both worlds.
SLD = ["pycomm3.slc_driver.parse_tag = lambda tag: parsed", "d = pycomm3.slc_driver.SLCDriver('10.0.0.1')", "d._session = session", "d._target_cid = cid",
       "d._target_is_connected = True", "d._connection_opened = True"]
SC = {"session": P.int(1, 0xFFFFFFFF), "cid": P.bytes(len=4)}
WORD_TYPES = ["N", "B", "S", "L", "I", "O"]


def _parsed(ft, form):
    if form == "word":
        return P.dict(file_type=P.const(repr(ft)), file_number=P.numeral(0, 255), element_number=P.numeral(0, 255),
                      sub_element=P.const("None"), address_field=P.const("2"), element_count=P.int(1, 6),
                      tag=P.const("'X'"), pos_number=P.numeral(0, 255))
    if form == "bit":
        return P.dict(file_type=P.const(repr(ft)), file_number=P.numeral(0, 255), element_number=P.numeral(0, 255),
                      sub_element=P.numeral(0, 15), address_field=P.const("3"), element_count=P.const("1"), tag=P.const("'X'"),
                      pos_number=P.numeral(0, 255))
    if form == "bbit":      # B3/n : integers
        return P.dict(file_type=P.const("'B'"), file_number=P.numeral(1, 255), element_number=P.int(0, 255),
                      sub_element=P.int(0, 15), address_field=P.const("3"), element_count=P.const("1"), tag=P.const("'X'"))
    if form == "ct":
        return P.dict(file_type=P.const(repr(ft)), file_number=P.numeral(1, 255), element_number=P.numeral(0, 255),
                      sub_element=P.oneof(*[P.const(str(v)) for v in (1, 2, 15, 14, 13, 12, 11, 10)]), address_field=P.const("3"),
                      element_count=P.const("1"), tag=P.const("'X'"))


CASES = [(ft, "word") for ft in WORD_TYPES] + [(ft, "bit") for ft in ("N", "B", "S", "I", "O", "L")] + [("B", "bbit"), ("T", "ct"), ("C", "ct")]
for _ft, _form in CASES:
    _size = 4 if _ft == "L" else (6 if _ft in "TC" else 2)
    contract(
        id=f"slc.read.{_ft}.{_form}", func="pycomm3.slc_driver.SLCDriver._read_tag", call="d._read_tag('X')",
        params=dict(SC, parsed=_parsed(_ft, _form), head=P.bytes(len=46), data=P.bytes(minlen=_size, maxlen=250)),
        requires=["spec.encap.le(head, 8, 4) == 0"] + ([f"len(data) == {_size} * parsed['element_count']"] if _form == "word" else []),
        setup=SLD + ["reply = spec.pccc.pccc_reply(head, 0, data)", "t = spec.env.Transport([reply])", "d._sock = t",
                     "sent = lambda: spec.encap.try_parse_frame(t.sent[0])[3][3]"],
        ensures=["len(t.sent) == 1",
                 "sent()[:7] == b'\\x4b\\x02\\x20\\x67\\x24\\x01\\x07'", "sent()[7:13] == d._cfg['vid'] + d._cfg['vsn']",
                 "sent()[13:15] == b'\\x0f\\x00'", "sent()[17:18] == b'\\xa2'",
                 f"sent()[18:] == spec.pccc.read_fields({_ft!r}, int(parsed['file_number']), int(parsed['element_number']), "
                 "int(parsed.get('pos_number', 0)), parsed['element_count'])",
                 f"result.value == spec.pccc.expected_read_value({_ft!r}, {_form != 'word'}, "
                 "int(parsed['sub_element']) if parsed['sub_element'] is not None else 0, parsed['element_count'], data)",
                 "result.error is None"],
        props=["C18"], max_paths=20000)
contract(
    id="slc.read.rejected", func="pycomm3.slc_driver.SLCDriver._read_tag", call="d._read_tag('bogus')",
    params=dict(SC, parsed=P.const("None")), setup=SLD + ["t = spec.env.Transport([])", "d._sock = t"],
    ensures=["False"], raises_only=["pycomm3.exceptions.RequestError"], ensures_exc=["len(t.sent) == 0"], props=["C18"])
contract(
    id="slc.read.status", func="pycomm3.slc_driver.SLCDriver._read_tag", call="d._read_tag('X')",
    params=dict(SC, parsed=_parsed("N", "word"), head=P.bytes(len=46), sts=P.int(0, 255), data=P.bytes(maxlen=8),
                cut=P.int(0, 80)),
    setup=SLD + ["reply = spec.pccc.pccc_reply(head, sts, data)[:cut]", "t = spec.env.Transport([reply])", "d._sock = t"],
    ensures=["(result.error is None) == (reply is not None and len(reply) > 58 and reply[58] == 0 and result.value is not None)",
             "implies(result.error is not None, result.value is None and len(result.error) > 0)"],
    raises_only=["pycomm3.exceptions.PycommError"], props=["C18", "C13"], max_paths=20000)

# ---- writes: mask + data of the protected typed logical masked write
for _ft, _form in CASES:
    if _form == "ct":
        continue
    _bit = _form != "word"
    _val = P.bool() if _bit else (P.list(P.int(-2**31, 2**31 - 1) if _ft == "L" else P.int(-32768, 32767), 3))
    contract(
        id=f"slc.write.{_ft}.{_form}", func="pycomm3.slc_driver.SLCDriver._write_tag", call="d._write_tag('X', value)",
        params=dict(SC, parsed=_parsed(_ft, _form) if _bit else
                    P.dict(file_type=P.const(repr(_ft)), file_number=P.numeral(0, 255), element_number=P.numeral(0, 255),
                           sub_element=P.const("None"), address_field=P.const("2"), element_count=P.const("3"), tag=P.const("'X'"),
                           pos_number=P.numeral(0, 255)),
                    head=P.bytes(len=46), value=_val),
        setup=SLD + ["t = spec.env.Transport([spec.pccc.pccc_reply(head, 0, b'')])", "d._sock = t",
                     "sent = lambda: spec.encap.try_parse_frame(t.sent[0])[3][3]",
                     "sub = int(parsed['sub_element']) if parsed['sub_element'] is not None else 0"],
        requires=["spec.encap.le(head, 8, 4) == 0"],
        ensures=["len(t.sent) == 1", "sent()[13:15] == b'\\x0f\\x00'", "sent()[17:18] == b'\\xab'",
                 f"sent()[18:23] == spec.pccc.read_fields({_ft!r}, int(parsed['file_number']), int(parsed['element_number']), "
                 "int(parsed.get('pos_number', 0)), parsed['element_count'])",
                 ("sent()[23:25] == spec.pccc.bit_mask(sub) and sent()[25:] == (spec.pccc.bit_mask(sub) if value else b'\\x00\\x00')")
                 if _bit else
                 ("sent()[23:25] == b'\\xff\\xff' and sent()[25:] == b''.join(spec.cip_codec.encode_int(" +
                  ("'DINT'" if _ft == "L" else "'INT'") + ", v) for v in value)"),
                 "result.error is None", "bool(result) == (value is not None)"],
        props=["C18"], max_paths=20000)

# the target's masked-write rule with those masks: a bit write changes only the addressed bit
from pyvc.api import lemma
lemma(
    id="slc.bit_write_changes_only_that_bit", params={"old": P.int(0, 65535), "bit": P.int(0, 15), "value": P.bool()},
    setup=["mask = 1 << bit", "data = mask if value else 0", "new = spec.pccc.apply_masked_write(old, mask, data)"],
    ensures=["((new >> bit) & 1) == (1 if value else 0)", "(new & ~mask & 0xFFFF) == (old & ~mask & 0xFFFF)", "0 <= new and new <= 65535"],
    props=["C18"])

# frame condition: the address fields of a request are those of THIS address, whatever was accessed before
# (two accesses to the same I/O slot that differ only in the word)
for _op in ("read", "write"):
    _second = "d._read_tag('B')" if _op == "read" else "d._write_tag('B', 5)"
    _first = "d._read_tag('A')" if _op == "read" else "d._write_tag('A', 7)"
    contract(
        id=f"slc.{_op}.sequence", func=f"pycomm3.slc_driver.SLCDriver._{_op}_tag", call=_second,
        bind={"ft": ["'I'", "'O'", "'N'"]},
        params=dict(SC, fnum=P.numeral(0, 255), elem=P.numeral(0, 255), w1=P.numeral(0, 255), w2=P.numeral(0, 255), head=P.bytes(len=46)),
        requires=["spec.encap.le(head, 8, 4) == 0"],
        setup=["mk = lambda name, w: {'file_type': ft, 'file_number': fnum, 'element_number': elem, 'sub_element': None, 'address_field': 2, "
               "'element_count': 1, 'tag': name, 'pos_number': w}", "table = {'A': mk('A', w1), 'B': mk('B', w2)}",
               "pycomm3.slc_driver.parse_tag = lambda tag: dict(table[tag])", "d = pycomm3.slc_driver.SLCDriver('10.0.0.1')", "d._session = session",
               "d._target_cid = cid", "d._target_is_connected = True", "d._connection_opened = True",
               "reply = spec.pccc.pccc_reply(head, 0, b'\\x01\\x00')", "t = spec.env.Transport([reply, reply])", "d._sock = t",
               f"first = {_first}", "sent = lambda: spec.encap.try_parse_frame(t.sent[1])[3][3]"],
        ensures=["len(t.sent) == 2", "result.error is None",
                 "sent()[18:23] == spec.pccc.read_fields(ft, int(fnum), int(elem), int(w2), 1)"],
        props=["C18"], max_paths=20000)


# ---- parse_tag on CONSTRUCTED addresses: the regular expressions are interpreted over symbolic numerals and casings
# (pyvc/rx.py), so the field extraction and the range checks are proved for ALL file / element / bit / count numerals of the
# grammar's shapes, not only for the enumerated ones.  Expected results are stated from the components, not by re-parsing.
PT = "pycomm3.slc_driver.parse_tag"
NUM = {"fnum": P.numeral(0, 1200), "elem": P.numeral(0, 1200), "bit": P.numeral(0, 120), "cnt": P.numeral(0, 300)}
_TAIL = {"word": ("", "None", "False"), "word_cnt": (" + '{' + cnt + '}'", "None", "False"),
         "bit": (" + '/' + bit", "int(bit)", "True"), "bit_cnt": (" + '/' + bit + '{' + cnt + '}'", "int(bit)", "True")}
for _ft in ("N", "B", "F", "L"):
    for _form, (_tail, _sub, _isbit) in _TAIL.items():
        _name = "ft + fnum + ':' + elem" + (" + '/' + bit" if "bit" in _form else "")
        _cnt = "int(cnt)" if "cnt" in _form else "1"
        _valid = "1 <= int(fnum) and int(fnum) <= 255 and int(elem) <= 255" + (" and int(bit) <= 15" if "bit" in _form else "")
        contract(
            id=f"slc.parse_tag.file.{_ft}.{_form}", func=PT, call=PT + "(tag)",
            params=dict({k: v for k, v in NUM.items() if k in ("fnum", "elem") or k in _tail}, ft=P.casing(_ft)),
            setup=[f"name = {_name}", f"tag = ft + fnum + ':' + elem{_tail}", f"valid = {_valid}"],
            ensures=["(result is not None) == valid",
                     f"result is None or spec.pccc.normalize(result) == {{'file_type': {_ft!r}, 'file_number': int(fnum), 'element': int(elem), "
                     f"'sub_element': {_sub}, 'bit_address': {_isbit}, 'count': {_cnt}, 'word': 0}}",
                     "result is None or result['tag'] == name"],
            props=["C18"], max_paths=40000)
# binary-file bit form  B<file>/<n>{count}
for _form, _tail in (("plain", ""), ("cnt", " + '{' + cnt + '}'")):
    contract(
        id=f"slc.parse_tag.bbit.{_form}", func=PT, call=PT + "(tag)",
        params=dict(ft=P.casing("B"), fnum=P.numeral(0, 1200), n=P.numeral(0, 12000), **({"cnt": NUM["cnt"]} if _tail else {})),
        setup=[f"tag = ft + fnum + '/' + n{_tail}", "valid = 1 <= int(fnum) and int(fnum) <= 255 and int(n) <= 4095"],
        ensures=["(result is not None) == valid",
                 "result is None or spec.pccc.normalize(result) == {'file_type': 'B', 'file_number': int(fnum), 'element': int(n) // 16, "
                 f"'sub_element': int(n) % 16, 'bit_address': True, 'count': {'int(cnt)' if _tail else '1'}, 'word': 0}}",
                 "result is None or result['tag'] == ft + fnum + '/' + n"],
        props=["C18"], max_paths=40000)
# status file  S:<e>[/<b>][{count}]   (file 2)
for _form, (_tail, _sub, _isbit) in _TAIL.items():
    contract(
        id=f"slc.parse_tag.status.{_form}", func=PT, call=PT + "(tag)",
        params=dict({k: v for k, v in NUM.items() if k == "elem" or k in _tail}, ft=P.casing("S")),
        setup=[f"tag = ft + ':' + elem{_tail}", "valid = int(elem) <= 255" + (" and int(bit) <= 15" if "bit" in _form else "")],
        ensures=["(result is not None) == valid",
                 "result is None or spec.pccc.normalize(result) == {'file_type': 'S', 'file_number': 2, 'element': int(elem), "
                 f"'sub_element': {_sub}, 'bit_address': {_isbit}, 'count': {'int(cnt)' if 'cnt' in _form else '1'}, 'word': 0}}"],
        props=["C18"], max_paths=40000)
# I/O  I[<f>]:<e>[.<w>][/<b>][{count}]   (output file 0, input file 1, whatever file number is written)
for _ft, _file in (("I", 1), ("O", 0)):
    for _hasf in (False, True):
        for _hasw in (False, True):
            for _form, (_tail, _sub, _isbit) in _TAIL.items():
                _head = "ft" + (" + fnum" if _hasf else "") + " + ':' + elem" + (" + '.' + w" if _hasw else "")
                _pp = dict({k: v for k, v in NUM.items() if k == "elem" or k in _tail}, ft=P.casing(_ft))
                if _hasf:
                    _pp["fnum"] = P.numeral(0, 1200)
                if _hasw:
                    _pp["w"] = P.numeral(0, 1200)
                _valid = "int(elem) <= 255" + (" and int(bit) <= 15" if "bit" in _form else "") + \
                    (" and int(fnum) <= 999" if _hasf else "") + (" and int(w) <= 999" if _hasw else "")
                contract(
                    id=f"slc.parse_tag.io.{_ft}.{'f' if _hasf else '-'}{'w' if _hasw else '-'}.{_form}", func=PT, call=PT + "(tag)",
                    params=_pp, setup=[f"tag = {_head}{_tail}", f"valid = {_valid}"],
                    ensures=["(result is not None) == valid",
                             f"result is None or spec.pccc.normalize(result) == {{'file_type': {_ft!r}, 'file_number': {_file}, 'element': int(elem), "
                             f"'sub_element': {_sub}, 'bit_address': {_isbit}, 'count': {'int(cnt)' if 'cnt' in _form else '1'}, "
                             f"'word': {'int(w)' if _hasw else '0'}}}"],
                    props=["C18"], max_paths=40000, tier="quick" if ((not _hasf and not _hasw) or _form == "word") else "thorough")
# timers / counters  T<f>:<e>.<SUB>
for _ft in ("T", "C"):
    contract(
        id=f"slc.parse_tag.{_ft}.sub", func=PT, call=PT + "(tag)",
        bind={"sub": [repr(k) for k in ("ACC", "PRE", "EN", "DN", "TT", "CU", "CD", "OV", "UN", "UA", "XX", "AC")],
              "sep": ["'.'", "'/'"]},
        params=dict(ft=P.casing(_ft), fnum=P.numeral(0, 1200), elem=P.numeral(0, 1200)),
        setup=["tag = ft + fnum + ':' + elem + sep + sub", "valid = 1 <= int(fnum) and int(fnum) <= 255 and int(elem) <= 255 and sub in spec.pccc.CT_SUB"],
        ensures=["(result is not None) == valid",
                 f"result is None or spec.pccc.normalize(result) == {{'file_type': {_ft!r}, 'file_number': int(fnum), 'element': int(elem), "
                 "'sub_element': spec.pccc.CT_SUB[sub], 'bit_address': True, 'count': 1, 'word': 0}"],
        props=["C18"], max_paths=40000)

# ---- the public entry points: one Tag for one address, a list in request order for several; real parse_tag, real addresses
SLD2 = ["d = pycomm3.slc_driver.SLCDriver('10.0.0.1')", "d._session = session", "d._target_cid = cid", "d._target_is_connected = True",
        "d._connection_opened = True"]
contract(
    id="slc.read.list", func="pycomm3.slc_driver.SLCDriver.read", call="d.read('N7:3', 'b3/17', 'L9:2', 'N7:3{2}')",
    params=dict(SC, head=P.bytes(len=46), d0=P.bytes(len=2), d1=P.bytes(len=2), d2=P.bytes(len=4), d3=P.bytes(len=4)),
    requires=["spec.encap.le(head, 8, 4) == 0"],
    setup=SLD2 + ["t = spec.env.Transport([spec.pccc.pccc_reply(head, 0, x) for x in (d0, d1, d2, d3)])", "d._sock = t",
                  "sent = lambda k: spec.encap.try_parse_frame(t.sent[k])[3][3]"],
    ensures=["isinstance(result, list) and len(result) == 4", "len(t.sent) == 4",
             "result[0].value == spec.cip_codec.decode_int('INT', d0) and result[0].tag == 'N7:3'",
             "result[1].value == spec.logix.bit_of(spec.cip_codec.decode_int('INT', d1), 1) and result[1].tag == 'b3/17'",
             "result[2].value == spec.cip_codec.decode_int('DINT', d2)",
             "result[3].value == [spec.cip_codec.decode_int('INT', d3[:2]), spec.cip_codec.decode_int('INT', d3[2:])] and result[3].tag == 'N7:3'",
             "all(r.error is None for r in result)",
             "sent(0)[18:] == spec.pccc.read_fields('N', 7, 3, 0, 1) and sent(1)[18:] == spec.pccc.read_fields('B', 3, 1, 0, 1)",
             "sent(2)[18:] == spec.pccc.read_fields('L', 9, 2, 0, 1) and sent(3)[18:] == spec.pccc.read_fields('N', 7, 3, 0, 2)"],
    props=["C18"], max_paths=20000)
contract(
    id="slc.read.one", func="pycomm3.slc_driver.SLCDriver.read", call="d.read('N7:3')",
    params=dict(SC, head=P.bytes(len=46), d0=P.bytes(len=2)), requires=["spec.encap.le(head, 8, 4) == 0"],
    setup=SLD2 + ["t = spec.env.Transport([spec.pccc.pccc_reply(head, 0, d0)])", "d._sock = t"],
    ensures=["not isinstance(result, list)", "result.value == spec.cip_codec.decode_int('INT', d0)", "result.tag == 'N7:3'"], props=["C18"])
contract(
    id="slc.read.unsupported", func="pycomm3.slc_driver.SLCDriver.read", call="d.read(addr)",
    bind={"addr": ["'X7:3'", "'N0:3'", "'N7:256'", "'N7:3/16'", "'B3/4096'", "'N7'", "''"]}, params=dict(SC),
    setup=SLD2 + ["t = spec.env.Transport([])", "d._sock = t"],
    ensures=["False"], raises_only=["pycomm3.exceptions.RequestError"], ensures_exc=["len(t.sent) == 0"], props=["C18"])
contract(
    id="slc.write.list", func="pycomm3.slc_driver.SLCDriver.write", call="d.write(('N7:3', v), ('b3/17', b), ('L9:2', w))",
    params=dict(SC, head=P.bytes(len=46), v=P.int(-32768, 32767), b=P.bool(), w=P.int(-2**31, 2**31 - 1)),
    requires=["spec.encap.le(head, 8, 4) == 0"],
    setup=SLD2 + ["t = spec.env.Transport([spec.pccc.pccc_reply(head, 0, b'')] * 3)", "d._sock = t",
                  "sent = lambda k: spec.encap.try_parse_frame(t.sent[k])[3][3]"],
    ensures=["isinstance(result, list) and len(result) == 3", "len(t.sent) == 3", "all(r.error is None for r in result)",
             "[r.value for r in result] == [v, b, w]",
             "sent(0)[17:] == b'\\xab' + spec.pccc.read_fields('N', 7, 3, 0, 1) + b'\\xff\\xff' + spec.cip_codec.encode_int('INT', v)",
             "sent(1)[17:] == b'\\xab' + spec.pccc.read_fields('B', 3, 1, 0, 1) + spec.pccc.bit_mask(1) + (spec.pccc.bit_mask(1) if b else b'\\x00\\x00')",
             "sent(2)[17:] == b'\\xab' + spec.pccc.read_fields('L', 9, 2, 0, 1) + b'\\xff\\xff' + spec.cip_codec.encode_int('DINT', w)"],
    props=["C18"], max_paths=20000)
