"""C01 / C02 / C03 -- request parsing, value encoding, reply decoding of LogixDriver."""
from pyvc.api import contract, P

LD = "pycomm3.logix_driver.LogixDriver"
DT = "pycomm3.cip.data_types."
# a small well-formed tag database (the postcondition of the upload, C05): atomic, array, BOOL array, string, UDT with a
# packed BOOL and a hidden host member, program-scoped tag
UDT_TYPE = ("pycomm3.custom_types.StructTag((pycomm3.cip.data_types.DINT('x'), 0), (pycomm3.cip.data_types.SINT('__h'), 4), "
            "(pycomm3.cip.data_types.INT('y'), 6), bit_members={'flag': (4, 3)}, private_members={'__h'}, struct_size=8)")
DB = ["udt_def = {'name': 'MyUdt', 'attributes': ['x', 'flag', 'y'], 'template': {'structure_size': 8, 'structure_handle': 0x1234}, "
      "'internal_tags': {'x': {'tag_type': 'atomic', 'data_type': 'DINT', 'data_type_name': 'DINT', 'offset': 0, 'array': 0, 'type_class': pycomm3.cip.data_types.DINT}, "
      "'flag': {'tag_type': 'atomic', 'data_type': 'BOOL', 'data_type_name': 'BOOL', 'offset': 4, 'bit': 3, 'type_class': pycomm3.cip.data_types.BOOL}, "
      "'__h': {'tag_type': 'atomic', 'data_type': 'SINT', 'data_type_name': 'SINT', 'offset': 4, 'array': 0, 'type_class': pycomm3.cip.data_types.SINT}, "
      "'y': {'tag_type': 'atomic', 'data_type': 'INT', 'data_type_name': 'INT', 'offset': 6, 'array': 0, 'type_class': pycomm3.cip.data_types.INT}}, "
      f"'type_class': {UDT_TYPE}}}",
      "str_def = {'name': 'STRING', 'attributes': ['LEN', 'DATA'], 'template': {'structure_size': 88, 'structure_handle': 0x0FCE}, 'string': 82, "
      "'internal_tags': {}, 'type_class': pycomm3.custom_types.FixedSizeString(82)}",
      "tags = {"
      "'d': {'tag_name': 'd', 'tag_type': 'atomic', 'data_type': 'DINT', 'data_type_name': 'DINT', 'dim': 0, 'dimensions': [0, 0, 0], 'instance_id': 10, 'type_class': pycomm3.cip.data_types.DINT}, "
      "'arr': {'tag_name': 'arr', 'tag_type': 'atomic', 'data_type': 'INT', 'data_type_name': 'INT', 'dim': 1, 'dimensions': [10, 0, 0], 'instance_id': 11, 'type_class': pycomm3.cip.data_types.Array(10, pycomm3.cip.data_types.INT)}, "
      "'ba': {'tag_name': 'ba', 'tag_type': 'atomic', 'data_type': 'DWORD', 'data_type_name': 'DWORD', 'dim': 1, 'dimensions': [4, 0, 0], 'instance_id': 12, 'type_class': pycomm3.cip.data_types.Array(4, pycomm3.cip.data_types.DWORD)}, "
      "'s': {'tag_name': 's', 'tag_type': 'struct', 'data_type': str_def, 'data_type_name': 'STRING', 'dim': 0, 'dimensions': [0, 0, 0], 'instance_id': 13, 'type_class': str_def['type_class']}, "
      "'sa': {'tag_name': 'sa', 'tag_type': 'struct', 'data_type': str_def, 'data_type_name': 'STRING', 'dim': 1, 'dimensions': [3, 0, 0], 'instance_id': 16, 'type_class': pycomm3.cip.data_types.Array(3, str_def['type_class'])}, "
      "'u': {'tag_name': 'u', 'tag_type': 'struct', 'data_type': udt_def, 'data_type_name': 'MyUdt', 'dim': 0, 'dimensions': [0, 0, 0], 'instance_id': 14, 'type_class': udt_def['type_class']}, "
      "'Program:Main.p': {'tag_name': 'Program:Main.p', 'tag_type': 'atomic', 'data_type': 'REAL', 'data_type_name': 'REAL', 'dim': 0, 'dimensions': [0, 0, 0], 'instance_id': 15, 'type_class': pycomm3.cip.data_types.REAL}}",
      f"d = {LD}('10.0.0.1')", "d._tags = tags"]

# ---- request parsing
# A BOOL array is an array of DWORDs: the request names a first DWORD k and a DWORD count; `bit` is the offset of the first
# requested BOOL inside the data that comes back.  Stated without fixing k (the library reads from DWORD 0; starting at
# idx // 32 would be equally right): the DWORDs requested must contain the BOOLs [idx, idx + n).
_BA_COVER = ["result['plc_tag'][:3] == 'ba[' and result['plc_tag'][-1:] == ']'", "k = int(result['plc_tag'][3:-1])"]
contract(
    id="request.parse.boolarray.read", func=LD + "._parse_tag_request", call="d._parse_tag_request(tag, 'r')",
    params={"idx": P.numeral(0, 127), "n": P.numeral(2, 128)}, setup=DB + ["tag = 'ba[' + idx + ']{' + n + '}'"],
    ensures=["result['plc_tag'][:3] == 'ba[' and result['plc_tag'][-1:] == ']'",
             "32 * int(result['plc_tag'][3:-1]) + result['bit'] == int(idx)", "result['bit'] >= 0",
             "result['bit'] + int(n) <= 32 * result['elements']", "result['bool_elements'] == int(n)",
             "result['user_tag'] == 'ba[' + idx + ']'"],
    props=["C01"])
contract(
    id="request.parse.boolarray.single", func=LD + "._parse_tag_request", call="d._parse_tag_request(tag, 'r')",
    params={"idx": P.numeral(0, 127)}, setup=DB + ["tag = 'ba[' + idx + ']'"],
    ensures=["result['plc_tag'][:3] == 'ba[' and result['plc_tag'][-1:] == ']'",
             "32 * int(result['plc_tag'][3:-1]) + result['bit'] == int(idx)", "result['bit'] >= 0",
             "result['bit'] + 1 <= 32 * result['elements']", "result['bool_elements'] is None"],
    props=["C01"])
contract(
    id="request.parse.boolarray.write", func=LD + "._parse_tag_request", call="d._parse_tag_request(tag, 'w')",
    params={"idx": P.numeral(0, 127), "n": P.numeral(2, 128)}, setup=DB + ["tag = 'ba[' + idx + ']{' + n + '}'"],
    ensures=["result['plc_tag'][:3] == 'ba[' and result['plc_tag'][-1:] == ']' and int(result['plc_tag'][3:-1]) == int(idx) // 32",
             "result['bit'] == int(idx)", "result['bool_elements'] == int(n)"],
    props=["C02"])
contract(
    id="request.parse.forms", func=LD + "._parse_tag_request", call="d._parse_tag_request(tag, 'r')",
    bind={"case": ["('d', 'd', None, 1)", "('d.5', 'd', 5, 1)", "('arr[3]', 'arr[3]', None, 1)", "('arr[2]{4}', 'arr[2]', None, 4)",
                   "('u.x', 'u.x', None, 1)", "('u.x.31', 'u.x', 31, 1)", "('u', 'u', None, 1)", "('s', 's', None, 1)",
                   "('Program:Main.p', 'Program:Main.p', None, 1)", "('arr[1].0', 'arr[1]', 0, 1)"]},
    setup=DB + ["tag = case[0]"],
    ensures=["result['plc_tag'] == case[1]", "result['bit'] == case[2]", "result['elements'] == case[3]",
             "result['user_tag'] == (case[0].split('{')[0])", "result['bool_elements'] is None"],
    props=["C01", "C02", "C03"])
contract(
    id="request.parse.invalid", func=LD + "._parse_tag_request", call="d._parse_tag_request(tag, 'r')",
    bind={"tag": ["'nope'", "'u.nope'", "'d.x.y'", "''", "'d{x}'", "'Program:Main.q'", "'u.x.y.z'", "'{3}'", "'d{'"]},
    setup=DB, ensures=["False"], raises_only=["pycomm3.exceptions.RequestError"], props=["C03"])

# ---- value encoding for writes
contract(
    id="encode_value.atomic", func="pycomm3.logix_driver.encode_value", call="pycomm3.logix_driver.encode_value(pt)",
    params={"v": P.int(-2**31, 2**31 - 1)},
    setup=DB + ["pt = {'value': v, 'elements': 1, 'tag_info': tags['d'], 'bool_elements': None, 'bit': None}"],
    ensures=["result == spec.cip_codec.encode_int('DINT', v)"], props=["C02"])
contract(
    id="encode_value.array", func="pycomm3.logix_driver.encode_value", call="pycomm3.logix_driver.encode_value(pt)",
    bind={"k": ["2", "3", "4"]}, params={"vals": P.list(P.int(-32768, 32767), 4)},
    setup=DB + ["pt = {'value': vals[:k], 'elements': 3, 'tag_info': tags['arr'], 'bool_elements': None, 'bit': None}"],
    ensures=["k >= 3", "result == b''.join(spec.cip_codec.encode_int('INT', x) for x in vals[:3])"],
    raises_only=["pycomm3.exceptions.RequestError"], ensures_exc=["k < 3"], props=["C02", "C03"])
contract(
    id="encode_value.boolarray", func="pycomm3.logix_driver.encode_value", call="pycomm3.logix_driver.encode_value(pt)",
    bind={"bit": ["0", "32", "5", "33"]}, params={"vals": P.list(P.bool(), 64)},
    setup=DB + ["pt = {'value': vals, 'elements': (bit + 64 + 31) // 32, 'tag_info': tags['ba'], 'bool_elements': 64, 'bit': bit}"],
    ensures=["bit % 32 == 0", "result == spec.cip_codec.encode_bits('DWORD', vals[:32]) + spec.cip_codec.encode_bits('DWORD', vals[32:])",
             "pt['elements'] == 2"],
    raises_only=["pycomm3.exceptions.RequestError"], ensures_exc=["bit % 32 != 0"], props=["C02", "C03"])
contract(
    id="encode_value.string", func="pycomm3.logix_driver.encode_value", call="pycomm3.logix_driver.encode_value(pt)",
    params={"text": P.str(maxcp=0xFF, maxlen=120)},
    setup=DB + ["pt = {'value': text, 'elements': 1, 'tag_info': tags['s'], 'bool_elements': None, 'bit': None}"],
    ensures=["result == spec.logix.logix_string_bytes(82, text)"], props=["C02"])
contract(
    id="encode_value.udt", func="pycomm3.logix_driver.encode_value", call="bytes(pycomm3.logix_driver.encode_value(pt))",
    params={"x": P.int(-2**31, 2**31 - 1), "y": P.int(-32768, 32767), "flag": P.bool()},
    setup=DB + ["pt = {'value': {'x': x, 'flag': flag, 'y': y}, 'elements': 1, 'tag_info': tags['u'], 'bool_elements': None, 'bit': None}"],
    ensures=["result == spec.logix.udt_bytes(8, [('x', 0, 'DINT'), ('y', 6, 'INT')], {'flag': (4, 3)}, {'x': x, 'y': y, 'flag': flag})"],
    props=["C02"])
contract(
    id="encode_value.bad", func="pycomm3.logix_driver.encode_value", call="pycomm3.logix_driver.encode_value(pt)",
    bind={"v": ["None", "'abc'", "2**40", "[1, 2]", "{'x': 1}", "object()"]},
    setup=DB + ["pt = {'value': v, 'elements': 1, 'tag_info': tags['d'], 'bool_elements': None, 'bit': None}"],
    ensures=["False"], raises_only=["pycomm3.exceptions.RequestError"], props=["C03"])

# ---- reply decoding by the uploaded type class
RR = "pycomm3.packets.util.parse_read_reply"
contract(
    id="read_reply.atomic", func=RR, call=RR + "(data, tags['d'], 1)", params={"v": P.int(-2**31, 2**31 - 1), "junk": P.bytes(maxlen=3)},
    setup=DB + ["data = b'\\xc4\\x00' + spec.cip_codec.encode_int('DINT', v) + junk"],
    ensures=["result == (v, 'DINT')"], props=["C01"])
contract(
    id="read_reply.array", func=RR, call=RR + "(data, tags['arr'], n)", bind={"n": ["1", "2", "3"]},
    params={"vals": P.list(P.int(-32768, 32767), 3)},
    setup=DB + ["data = b'\\xc3\\x00' + b''.join(spec.cip_codec.encode_int('INT', x) for x in vals[:n])"],
    ensures=["result == ((vals[0], 'INT') if n == 1 else (vals[:n], 'INT[' + str(n) + ']'))"], props=["C01"])
contract(
    id="read_reply.boolarray", func=RR, call=RR + "(data, tags['ba'], 1)", params={"word": P.bytes(len=4)},
    setup=DB + ["data = b'\\xd3\\x00' + word"],
    ensures=["result == (spec.cip_codec.decode_bits('DWORD', word), 'BOOL[32]')"], props=["C01"])
contract(
    id="read_reply.string", func=RR, call=RR + "(data, tags['s'], 1)", params={"text": P.str(maxcp=0xFF, maxlen=82)},
    setup=DB + ["data = b'\\xa0\\x02\\xce\\x0f' + spec.logix.logix_string_bytes(82, text)"],
    ensures=["result == (text, 'STRING')"], props=["C01"])
contract(
    id="read_reply.udt", func=RR, call=RR + "(data, tags['u'], 1)", params={"image": P.bytes(len=8)},
    setup=DB + ["data = b'\\xa0\\x02\\x34\\x12' + image"],
    ensures=["result == (spec.logix.udt_view(8, [('x', 0, 'DINT'), ('y', 6, 'INT')], {'flag': (4, 3)}, set(), image), 'MyUdt')",
             "list(result[0]) == ['x', 'flag', 'y']"], props=["C01"])

# a bit number beyond the width of the addressed integer is an index out of range: it is rejected when the request is parsed
contract(
    id="request.parse.bit.range", func=LD + "._parse_tag_request", call="d._parse_tag_request(tag, rw)",
    bind={"case": ["('d', 32)", "('arr[1]', 16)", "('u.x', 32)", "('u.y', 16)", "('arr', 16)"], "rw": ["'r'", "'w'"]},
    params={"b": P.numeral(0, 10**6)}, setup=DB + ["tag = case[0] + '.' + b"],
    ensures=["int(b) < case[1]", "result['bit'] == int(b)", "result['plc_tag'] == case[0]", "result['bool_elements'] is None"],
    raises_only=["pycomm3.exceptions.RequestError"], ensures_exc=["int(b) >= case[1]"], props=["C03", "C02", "C01"])
# a BOOL-array write covers whole DWORDs only: a count that is not a multiple of 32 cannot be written without touching
# other elements, so it is rejected (like an index that is not a multiple of 32)
contract(
    id="encode_value.boolarray.count", func="pycomm3.logix_driver.encode_value", call="pycomm3.logix_driver.encode_value(pt)",
    bind={"n": ["2", "31", "33", "40", "63", "64", "96"]}, params={"vals": P.list(P.bool(), 96)},
    setup=DB + ["pt = {'value': vals[:n], 'elements': (n + 31) // 32, 'tag_info': tags['ba'], 'bool_elements': n, 'bit': 0}"],
    ensures=["n % 32 == 0", "result == b''.join(spec.cip_codec.encode_bits('DWORD', vals[32 * i:32 * i + 32]) for i in range(n // 32))",
             "pt['elements'] == n // 32"],
    raises_only=["pycomm3.exceptions.RequestError"], ensures_exc=["n % 32 != 0"], props=["C02", "C03"])
