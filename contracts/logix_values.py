"""C01 / C02 -- pieces between a request and the bytes on the wire / the value handed back."""
from pyvc.api import contract, lemma, P

PK = "pycomm3.packets."
IDENT = dict(minlen=1, maxlen=40, maxcp=127, free_of=".[]{},: /\\", props=("nondigit",))


def _ti(kind, extra=""):
    if kind == "struct":
        return ("{'tag_type': 'struct', 'data_type': {'name': 'UDT', 'template': {'structure_size': 88, 'structure_handle': handle}}, "
                "'data_type_name': 'UDT', 'instance_id': 9" + extra + "}")
    return f"{{'tag_type': 'atomic', 'data_type': '{kind}', 'data_type_name': '{kind}', 'instance_id': 9{extra}}}"


# ---- read-modify-write: both masks exactly as wide as the tag; bits merged per tag
for _dt, _size in (("SINT", 1), ("INT", 2), ("DINT", 4), ("LINT", 8), ("DWORD", 4)):
    _bits = 8 * _size
    contract(       # one bit, every position and value
        id=f"rmw.message.{_dt}", func=PK + "logix.ReadModifyWriteRequestPacket._setup_message", call="r.build_message()",
        params={"seq": P.int(0, 65535), "name": P.str(**IDENT), "b1": P.int(0, _bits - 1 if _dt != "DWORD" else 95), "v1": P.bool(),
                "use_ids": P.bool()},
        setup=[f"r = {PK}ReadModifyWriteRequestPacket(seq, name, {_ti(_dt)}, 0, use_ids)", "r.set_bit(b1, v1, 0)",
               f"masks = spec.logix.rmw_masks({_size}, [(b1 % {_bits}, v1)])"],
        ensures=[f"result == spec.cip_codec.le_uint(seq, 2) + spec.logix.rmw_request(r.request_path, {_size}, masks[0], masks[1])",
                 "r._request_ids == [0]"],
        props=["C02"], max_paths=20000)
    contract(       # several bits of one word merged into one request
        id=f"rmw.merge.{_dt}", func=PK + "logix.ReadModifyWriteRequestPacket._setup_message", call="r.build_message()",
        bind={"bits": [f"(0, {_bits - 1}, 3)", "(1, 0, 1)", f"({_bits - 1}, {_bits // 2}, 0)", "(5, 5, 5)", "(2, 6, 2)"]},
        params={"seq": P.int(0, 65535), "name": P.str(**IDENT), "v1": P.bool(), "v2": P.bool(), "v3": P.bool(), "use_ids": P.bool()},
        setup=[f"r = {PK}ReadModifyWriteRequestPacket(seq, name, {_ti(_dt)}, 0, use_ids)", "r.set_bit(bits[0], v1, 0)",
               "r.set_bit(bits[1], v2, 1)", "r.set_bit(bits[2], v3, 2)",
               f"masks = spec.logix.rmw_masks({_size}, [(bits[0], v1), (bits[1], v2), (bits[2], v3)])"],
        ensures=[f"result == spec.cip_codec.le_uint(seq, 2) + spec.logix.rmw_request(r.request_path, {_size}, masks[0], masks[1])",
                 "r._request_ids == [0, 1, 2]"],
        props=["C02", "C03"], max_paths=20000)
# what the target then does with those masks: exactly the addressed bits change
lemma(
    id="rmw.changes_only_addressed_bit", bind={"v": ["True", "False"]}, params={"old": P.int(0, 2**32 - 1), "b": P.int(0, 31)},
    setup=["m = spec.logix.rmw_masks(4, [(b, v)])", "new = spec.logix.apply_rmw(old, m[0], m[1])", "keep = ~(1 << b) & 0xFFFFFFFF"],
    ensures=["((new >> b) & 1) == (1 if v else 0)", "(new & keep) == (old & keep)"], props=["C02"], max_paths=20000)
lemma(
    id="rmw.changes_only_addressed_bits", bind={"bits": ["(0, 31)", "(5, 6)", "(17, 3)"], "v1": ["True", "False"], "v2": ["True", "False"]},
    params={"old": P.int(0, 2**32 - 1)},
    setup=["m = spec.logix.rmw_masks(4, [(bits[0], v1), (bits[1], v2)])", "new = spec.logix.apply_rmw(old, m[0], m[1])",
           "keep = ~((1 << bits[0]) | (1 << bits[1])) & 0xFFFFFFFF"],
    ensures=["((new >> bits[0]) & 1) == (1 if v1 else 0)", "((new >> bits[1]) & 1) == (1 if v2 else 0)", "(new & keep) == (old & keep)"],
    props=["C02"], max_paths=20000)

# ---- write message layouts
for _kind in ("DINT", "REAL", "struct"):
    contract(
        id=f"write.message.{_kind}", func=PK + "logix.WriteTagRequestPacket.tag_only_message", call="r.tag_only_message()",
        params={"seq": P.int(0, 65535), "name": P.str(**IDENT), "elements": P.int(0, 65535), "value": P.bytes(), "handle": P.int(0, 65535),
                "use_ids": P.bool()},
        setup=[f"ti = {_ti(_kind)}", f"r = {PK}WriteTagRequestPacket(seq, name, elements, ti, 0, use_ids, value)", "r.build_message()"],
        ensures=["result == spec.logix.write_request(r.request_path, spec.logix.type_field(ti), elements, value)",
                 "r.message == spec.cip_codec.le_uint(seq, 2) + result"],
        props=["C02"])
    contract(
        id=f"write.fragment.message.{_kind}", func=PK + "logix.WriteTagFragmentedRequestPacket.tag_only_message", call="r.tag_only_message()",
        params={"seq": P.int(0, 65535), "name": P.str(**IDENT), "elements": P.int(0, 65535), "value": P.bytes(), "handle": P.int(0, 65535),
                "offset": P.int(0, 2**32 - 1), "use_ids": P.bool()},
        setup=[f"ti = {_ti(_kind)}", f"r = {PK}WriteTagFragmentedRequestPacket(seq, name, elements, ti, 0, use_ids, offset, value)", "r.build_message()"],
        ensures=["result == spec.logix.write_fragmented_request(r.request_path, spec.logix.type_field(ti), elements, offset, value)"],
        props=["C02"])
contract(
    id="read.message", func=PK + "logix.ReadTagRequestPacket._setup_message", call="r.build_message()",
    params={"seq": P.int(0, 65535), "name": P.str(**IDENT), "elements": P.int(0, 65535), "use_ids": P.bool()},
    setup=[f"r = {PK}ReadTagRequestPacket(seq, name, elements, {_ti('DINT')}, 0, use_ids)"],
    ensures=["result == spec.cip_codec.le_uint(seq, 2) + spec.logix.read_request(r.request_path, elements)"], props=["C01"])
contract(
    id="read.fragment.message", func=PK + "logix.ReadTagFragmentedRequestPacket._setup_message", call="r.build_message()",
    params={"seq": P.int(0, 65535), "name": P.str(**IDENT), "elements": P.int(0, 65535), "offset": P.int(0, 2**32 - 1), "use_ids": P.bool()},
    setup=[f"r = {PK}ReadTagFragmentedRequestPacket(seq, name, elements, {_ti('DINT')}, 0, use_ids, offset)"],
    ensures=["result == spec.cip_codec.le_uint(seq, 2) + spec.logix.read_fragmented_request(r.request_path, elements, offset)"],
    props=["C01"])
# multi-service request: count, offsets from the count field, services in request order
contract(
    id="multi.message", func=PK + "logix.MultiServiceRequestPacket.build_message", call="m.build_message()",
    params={"seq": P.int(0, 65535), "n1": P.str(**IDENT), "n2": P.str(**IDENT), "e1": P.int(0, 65535), "value": P.bytes(maxlen=400)},
    setup=[f"r1 = {PK}ReadTagRequestPacket(1, n1, e1, {_ti('DINT')}, 0, True)", "r1.build_message()",
           f"r2 = {PK}WriteTagRequestPacket(2, n2, 1, {_ti('DINT')}, 1, True, value)", "r2.build_message()",
           f"m = {PK}MultiServiceRequestPacket(seq, [r1, r2])"],
    ensures=["result == spec.cip_codec.le_uint(seq, 2) + b'\\x0a\\x02\\x20\\x02\\x24\\x01' + "
             "spec.logix.multi_body([r1.tag_only_message(), r2.tag_only_message()])"],
    props=["C01", "C02", "C11"])

# ---- Logix fixed-capacity strings
CT = "pycomm3.custom_types."
for _cap in (1, 10, 82):
    contract(
        id=f"fixedstring.encode.{_cap}", func="pycomm3.cip.data_types.DataType.encode", call=f"{CT}FixedSizeString({_cap}).encode(text)",
        params={"text": P.oneof(P.str(maxcp=0xFF, maxlen=200), P.const("None"), P.const("5"))},
        ref=f"spec.cip_codec.encode_fixed_string({_cap}, text)", props=["C02", "C06", "C07", "C08"])
    contract(
        id=f"fixedstring.decode.{_cap}", func="pycomm3.cip.data_types.DataType.decode", call=f"{CT}FixedSizeString({_cap}).decode(buffer)",
        params={"buffer": P.oneof(P.bytes(), P.stream(P.bytes()))},
        ref=f"spec.cip_codec.decode_fixed_string({_cap}, buffer)", compare=["result", "exc", "stream:buffer"],
        props=["C01", "C06", "C07", "C08"])
    contract(
        id=f"fixedstring.roundtrip.{_cap}", func="pycomm3.cip.data_types.DataType.decode", call=f"{CT}FixedSizeString({_cap}).decode(buffer)",
        params={"text": P.str(maxcp=0xFF, maxlen=200), "rest": P.bytes()},
        setup=[f"buffer = io.BytesIO(spec.logix.logix_string_bytes({_cap}, text) + rest)"],
        ensures=[f"result == text[:{_cap}]", "buffer.read() == rest"], props=["C01", "C02", "C06"])

# ---- structures by template offsets (one representative UDT layout, all member values / all images)
DTP = "pycomm3.cip.data_types."
UDT = (f"{CT}StructTag(({DTP}DINT('a'), 0), ({DTP}SINT('__host'), 4), ({DTP}REAL('r'), 8), ({DTP}UINT[2]('arr'), 12), "
       "bit_members={'b0': (4, 0), 'b7': (4, 7)}, private_members={'__host'}, struct_size=16)")
LAYOUT = "16, [('a', 0, 'DINT'), ('r', 8, 'REAL'), ('arr', 12, ('array', 2, 'UINT'))], {'b0': (4, 0), 'b7': (4, 7)}"
contract(
    id="structtag.encode", func=CT + "StructTag.<locals>.StructTag._encode", call="bytes(T.encode(values))",
    params={"values": P.dict(a=P.int(-2**31, 2**31 - 1), r=P.float(), arr=P.list(P.int(0, 65535), 2), b0=P.bool(), b7=P.bool())},
    setup=[f"T = {UDT}"], ref=f"spec.logix.udt_bytes({LAYOUT}, values)", props=["C02", "C07"])
contract(
    id="structtag.decode", func=CT + "StructTag.<locals>.StructTag._decode", call="T.decode(buffer)",
    params={"data": P.bytes(len=16), "rest": P.bytes()}, setup=[f"T = {UDT}", "buffer = io.BytesIO(data + rest)"],
    ensures=[f"same(result, spec.logix.udt_view({LAYOUT}, {{'__host'}}, data))", "buffer.read() == rest"], props=["C01", "C07", "C06"])
contract(
    id="structtag.decode.short", func=CT + "StructTag.<locals>.StructTag._decode", call="T.decode(data)",
    params={"data": P.bytes(maxlen=15)}, setup=[f"T = {UDT}"], ensures=["False"],
    raises_only=["pycomm3.exceptions.DataError"], props=["C08"])
# frame condition: an encoded value is its own object -- encoding a second value of the type leaves the first one untouched
# (two structures of one type in one write call are both encoded before either is sent)
_VALS = dict(a=P.int(-2**31, 2**31 - 1), r=P.float(), arr=P.list(P.int(0, 65535), 2), b0=P.bool(), b7=P.bool())
contract(
    id="structtag.encode.no_alias", func=CT + "StructTag.<locals>.StructTag._encode", call="bytes(T.encode(second))",
    params={"first": P.dict(**_VALS), "second": P.dict(**_VALS)},
    setup=[f"T = {UDT}", "e1 = T.encode(first)"],
    ensures=[f"result == spec.logix.udt_bytes({LAYOUT}, second)", f"bytes(e1) == spec.logix.udt_bytes({LAYOUT}, first)"],
    raises_only=["pycomm3.exceptions.DataError"],       # a float outside the REAL range cannot be packed
    props=["C02", "C07"], max_paths=20000)
# BOOL members hosted by a VISIBLE integer member (module-defined types): the BOOL member decides its bit, set or cleared
UDT_V = (f"{CT}StructTag(({DTP}INT('ctr'), 0), ({DTP}DINT('acc'), 4), bit_members={{'en': (0, 0), 'dn': (1, 7)}}, "
         "private_members=set(), struct_size=8)")
LAYOUT_V = "8, [('ctr', 0, 'INT'), ('acc', 4, 'DINT')], {'en': (0, 0), 'dn': (1, 7)}"
contract(
    id="structtag.encode.visible_host", func=CT + "StructTag.<locals>.StructTag._encode", call="bytes(T.encode(values))",
    params={"values": P.dict(ctr=P.int(-32768, 32767), acc=P.int(-2**31, 2**31 - 1), en=P.bool(), dn=P.bool())},
    setup=[f"T = {UDT_V}"], ref=f"spec.logix.udt_bytes({LAYOUT_V}, values)", props=["C02", "C07"], max_paths=20000)
contract(
    id="structtag.roundtrip.visible_host", func=CT + "StructTag.<locals>.StructTag._decode", call="T.decode(bytes(T.encode(values)))",
    params={"values": P.dict(ctr=P.int(-32768, 32767), acc=P.int(-2**31, 2**31 - 1), en=P.bool(), dn=P.bool())},
    setup=[f"T = {UDT_V}"], ensures=["result['en'] == values['en']", "result['dn'] == values['dn']", "result['acc'] == values['acc']"],
    props=["C06", "C02"], max_paths=20000)
# a structure whose size exceeds the end of its last member (trailing padding): decoding consumes the whole structure
UDT_P = f"{CT}StructTag(({DTP}DINT('a'), 0), ({DTP}SINT('b'), 4), bit_members={{}}, private_members=set(), struct_size=8)"
contract(
    id="structtag.decode.padded", func=CT + "StructTag.<locals>.StructTag._decode", call="T.decode(buffer)",
    params={"data": P.bytes(len=8), "rest": P.bytes()}, setup=[f"T = {UDT_P}", "buffer = io.BytesIO(data + rest)"],
    ensures=["result == {'a': spec.cip_codec.decode_int('DINT', data[:4]), 'b': spec.cip_codec.decode_int('SINT', data[4:5])}",
             "buffer.read() == rest"], props=["C01", "C07", "C06"])
contract(
    id="structtag.decode.padded.array", func="pycomm3.cip.data_types.Array.<locals>.Array.decode", call=f"pycomm3.cip.data_types.Array(2, T).decode(buffer)",
    params={"data": P.bytes(len=16), "rest": P.bytes()}, setup=[f"T = {UDT_P}", "buffer = io.BytesIO(data + rest)"],
    ensures=["result == [{'a': spec.cip_codec.decode_int('DINT', data[8 * i:8 * i + 4]), 'b': spec.cip_codec.decode_int('SINT', data[8 * i + 4:8 * i + 5])} for i in range(2)]",
             "buffer.read() == rest"], props=["C01", "C07", "C06"])

# a structure that does not start the buffer (element 1.. of an array of structures, a nested structure): BOOL members come from
# THIS structure's host bytes
contract(
    id="structtag.decode.at_offset", func=CT + "StructTag.<locals>.StructTag._decode", call="T.decode(buffer)",
    params={"before": P.bytes(minlen=1, maxlen=40), "data": P.bytes(len=16), "rest": P.bytes()},
    setup=[f"T = {UDT}", "buffer = io.BytesIO(before + data + rest)", "junk = buffer.read(len(before))"],
    ensures=[f"same(result, spec.logix.udt_view({LAYOUT}, {{'__host'}}, data))", "buffer.read() == rest"], props=["C01", "C07", "C06"])
contract(
    id="structtag.decode.array", func="pycomm3.cip.data_types.Array.<locals>.Array.decode", call="pycomm3.cip.data_types.Array(2, T).decode(buffer)",
    params={"d0": P.bytes(len=16), "d1": P.bytes(len=16), "rest": P.bytes()}, setup=[f"T = {UDT}", "buffer = io.BytesIO(d0 + d1 + rest)"],
    ensures=[f"same(result, [spec.logix.udt_view({LAYOUT}, {{'__host'}}, d0), spec.logix.udt_view({LAYOUT}, {{'__host'}}, d1)])", "buffer.read() == rest"],
    props=["C01", "C07", "C06"])
