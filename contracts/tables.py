"""C19 -- code tables are total, bidirectional, case-insensitive lookups.

The tables and their members are enumerated from the tree under test (by importing it), so a new table or member is
put under contract automatically.  Name lookups are proved for EVERY letter-casing of every member name at once
(symbolic casing); code lookups and the status texts are finite and evaluated completely."""
import importlib
import logging
import pkgutil

from pyvc.api import contract, P


def _tables():
    logging.disable(logging.CRITICAL)
    import pycomm3
    from pycomm3.map import MapMeta, EnumMap
    out = {}
    for m in pkgutil.walk_packages(pycomm3.__path__, "pycomm3."):
        try:
            mod = importlib.import_module(m.name)
        except Exception:
            continue
        for k, v in vars(mod).items():
            if isinstance(v, MapMeta) and v is not EnumMap and v.__module__ == mod.__name__:
                out[f"{mod.__name__}.{v.__qualname__}"] = v
    return out


def _members(t):
    return [k for k, v in vars(t).items() if not k.startswith("_") and not isinstance(v, (classmethod, staticmethod))]


def _keyrepr(t, v):
    f = vars(t).get("_value_key_")
    k = f(v) if f else v
    if isinstance(k, type):
        return f"{k.__module__}.{k.__qualname__}"
    return repr(k)


M = "pycomm3.map.MapMeta."
for _path, _t in sorted(_tables().items()):
    _names = _members(_t)
    if not _names:
        continue
    _short = _path.split(".")[-1]
    for _n in _names:
        contract(
            id=f"table.{_short}.getitem.{_n}", func=M + "__getitem__", call="table[s]", bind={"table": [_path]},
            params={"s": P.casing(_n)}, ref=f"spec.tables.declared(table, {_n!r})", props=["C19"])
        contract(
            id=f"table.{_short}.get.{_n}", func=M + "get", call="table.get(s)", bind={"table": [_path]},
            params={"s": P.casing(_n)}, ref=f"spec.tables.declared(table, {_n!r})", props=["C19"])
        contract(
            id=f"table.{_short}.contains.{_n}", func=M + "__contains__", call="(s in table)", bind={"table": [_path]},
            params={"s": P.casing(_n)}, ensures=["result == True"], props=["C19"])
    if vars(_t).get("_bidirectional_", True):
        _keys = [f"spec.tables.value_key({_path}, spec.tables.declared({_path}, {n!r}))" for n in _names]
        contract(
            id=f"table.{_short}.reverse.getitem", func=M + "__getitem__", call="table[key]",
            bind={"table": [_path], "key": _keys},
            ensures=["spec.tables.is_member_with_key(table, result, key)", "table.get(key) == result", "key in table"],
            props=["C19"])
    contract(
        id=f"table.{_short}.missing", func=M + "get", call="table.get(s)", bind={"table": [_path]},
        params={"s": P.oneof(P.const("'no_such_member_zz'"), P.const("-12345"), P.const("None"), P.const("b'\\xfe\\xfe\\xfe'"))},
        ensures=["result is None", "s not in table"], props=["C19"])

# data-type codes resolve to the type that carries that code; reply service code -> request service
contract(
    id="datatypes.get_type", func="pycomm3.cip.data_types.DataTypes.get_type", call="pycomm3.cip.data_types.DataTypes.get_type(code)",
    bind={"code": sorted({repr(v.code) for v in (vars(_tables()["pycomm3.cip.data_types.DataTypes"])[n]
                          for n in _members(_tables()["pycomm3.cip.data_types.DataTypes"]))})},
    ensures=["result.code == code"], props=["C19", "C07"])
contract(
    id="datatypes.code_table", func="pycomm3.cip.data_types.DataTypes.get_type", call="pycomm3.cip.data_types.DataTypes.get_type(code)",
    bind={"code": [repr(c) for c in range(0xC1, 0xDF) if c != 0xDC]},
    ensures=["result.__name__ == spec.cip_codec.TYPE_CODES[code]",
             "implies(result.__name__ in spec.cip_codec.INT_TYPES, result.size == spec.cip_codec.INT_TYPES.get(result.__name__, (0, 0))[0])",
             "implies(result.__name__ in spec.cip_codec.BITSTRING_TYPES, result.size == spec.cip_codec.BITSTRING_TYPES.get(result.__name__, 0))",
             "implies(result.__name__ in spec.cip_codec.WIDTHS, result.size == spec.cip_codec.WIDTHS.get(result.__name__, 0))"],
    props=["C07", "C19"], note="each documented CIP type code maps to the type of that name and width (CIP Vol 1 Table C-6.1)")
contract(
    id="services.from_reply", func="pycomm3.cip.services.Services.from_reply",
    call="pycomm3.cip.services.Services.from_reply(bytes([code | 0x80]))",
    bind={"code": sorted({repr(vars(_tables()["pycomm3.cip.services.Services"])[n][0])
                          for n in _members(_tables()["pycomm3.cip.services.Services"])})},
    ensures=["result == pycomm3.cip.services.Services[bytes([code])]"], props=["C19", "C13"])

# status texts: total over 0..255 with the hex fallback
contract(
    id="status.service_text", func="pycomm3.packets.util.get_service_status", call="pycomm3.packets.util.get_service_status(s)",
    bind={"s": [str(i) for i in range(256)]},
    ensures=["isinstance(result, str) and len(result) > 0",
             "result == pycomm3.cip.status_info.SERVICE_STATUS[s] if s in pycomm3.cip.status_info.SERVICE_STATUS "
             "else spec.tables.hex2(s) in result"],
    props=["C19", "C13"])

# frame condition: a lookup in one table does not depend on lookups made before in ANOTHER table
# (every pair of tables that share a member name or a code; the shared key is looked up in the first, then in the second)
def _shared():
    tabs = sorted(_tables().items())
    out = []
    for i, (pa, ta) in enumerate(tabs):
        for pb, tb in tabs:
            if pa == pb:
                continue
            names = [n for n in _members(ta) if n in _members(tb)]
            for n in names[:2]:
                out.append((pa, pb, "name", n))
            if vars(ta).get("_bidirectional_", True) and vars(tb).get("_bidirectional_", True):
                ka = {_keyrepr(ta, vars(ta)[n]): n for n in _members(ta)}
                kb = {_keyrepr(tb, vars(tb)[n]): n for n in _members(tb)}
                for k in sorted(set(ka) & set(kb))[:2]:
                    out.append((pa, pb, "code", (ka[k], kb[k])))
    return out


for _pa, _pb, _kind, _what in _shared():
    _sa, _sb = _pa.split(".")[-1], _pb.split(".")[-1]
    if _kind == "name":
        contract(
            id=f"table.cross.{_sa}.{_sb}.name.{_what}", func=M + "__getitem__", call=f"{_pb}[{_what!r}]",
            setup=[f"first = ({_pa}[{_what!r}], {_pa}.get({_what!r}))"],
            ensures=[f"result == spec.tables.declared({_pb}, {_what!r})", f"{_pb}.get({_what!r}) == result"], props=["C19"])
    else:
        _ka = f"spec.tables.value_key({_pa}, spec.tables.declared({_pa}, {_what[0]!r}))"
        _kb = f"spec.tables.value_key({_pb}, spec.tables.declared({_pb}, {_what[1]!r}))"
        contract(
            id=f"table.cross.{_sa}.{_sb}.code.{_what[1]}", func=M + "__getitem__", call=f"{_pb}[{_kb}]",
            setup=[f"first = ({_pa}[{_ka}], {_pa}.get({_ka}))"],
            ensures=[f"spec.tables.is_member_with_key({_pb}, result, {_kb})", f"{_pb}.get({_kb}) == result"], props=["C19"])

# extended status texts: every (general status, extended status) pair of the table resolves to its text, with the extended
# status sent as one word (size 1) -- extended value 0 included; an unknown pair names the code
def _ext_pairs():
    from pycomm3.cip.status_info import EXTEND_CODES
    return sorted((s, e) for s, tab in EXTEND_CODES.items() for e in tab if 0 <= e <= 0xFFFF)


contract(
    id="status.extended_text", func="pycomm3.packets.util.get_extended_status", call="pycomm3.packets.util.get_extended_status(msg, start)",
    bind={"pair": [repr(p) for p in _ext_pairs()], "start": ["42", "48"]},
    setup=["msg = bytes(start) + bytes([pair[0], 1]) + spec.cip_codec.le_uint(pair[1], 2)"],
    ensures=["isinstance(result, str)", "pycomm3.cip.status_info.EXTEND_CODES[pair[0]][pair[1]] in result"], props=["C19", "C13"])
contract(
    id="status.extended_text.unknown", func="pycomm3.packets.util.get_extended_status", call="pycomm3.packets.util.get_extended_status(msg, 42)",
    bind={"ext": ["0", "1", "0x1234", "0xffff"]}, params={"status": P.int(0, 255)},
    requires=["status not in pycomm3.cip.status_info.EXTEND_CODES"],
    setup=["msg = bytes(42) + bytes([status, 1]) + spec.cip_codec.le_uint(ext, 2)"],
    ensures=["isinstance(result, str)", "spec.tables.hex2(ext) in result"], props=["C19", "C13"])
