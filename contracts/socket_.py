"""C12 -- Socket.receive / Socket.send over the assumed nondeterministic peer socket (spec/env.py PeerSocket):
the proof quantifies over every chunk schedule, every partial-send pattern and every close / error point."""
from pyvc.api import contract, P

SK = "pycomm3.socket_.Socket"


def _frame(rng):
    """a well-formed encapsulation frame of a random body length (short, around the 256-byte receive size, long)"""
    n = rng.choice([0, 0, 1, 4, 20, 255, 256, 257, 300, 600, rng.randint(0, 2000), rng.randint(0, 65535)])
    body = bytes(rng.getrandbits(8) for _ in range(min(n, 64))) + bytes(max(n - 64, 0))
    return bytes(rng.getrandbits(8) for _ in range(2)) + bytes([n & 0xFF, n >> 8]) + bytes(rng.getrandbits(8) for _ in range(20)) + body


SETUP = ["s = object.__new__(pycomm3.socket_.Socket)", "peer = spec.env.PeerSocket(frame)", "s.sock = peer"]

contract(
    id="socket.receive", func=SK + ".receive", call="s.receive()",
    params={"frame": P.sampled(P.bytes(minlen=24, maxlen=24 + 65535), _frame)},      # the stand-in draws well-formed frames
    requires=["spec.env.wellformed_frame(frame)"],
    setup=SETUP, nondet=True,
    ensures=["result == frame", "peer.delivered == len(frame)"],
    raises_only=["pycomm3.exceptions.CommError"],
    ensures_exc=["peer.faults > 0"],      # CommError only when the peer closed or the socket failed
    loops={1: {"havoc": {"peer.delivered": P.int(1, None), "data": "=peer.frame[:peer.delivered]"},
               "invariant": ["peer.delivered <= len(peer.frame)", "peer.faults == 0"],
               "decreases": "len(peer.frame) - len(data)"},
           2: {"havoc": {"peer.delivered": P.int(4, None), "data": "=peer.frame[:peer.delivered]",
                         "data_len": "=spec.env.le16(peer.frame, 2)"},
               "invariant": ["peer.delivered <= len(peer.frame)", "peer.faults == 0"],
               "decreases": "len(peer.frame) - len(data)"}},
    props=["C12"])

contract(
    id="socket.send", func=SK + ".send", call="s.send(msg)",
    params={"msg": P.bytes(), "frame": P.const("b''")},
    setup=SETUP, nondet=True,
    ensures=["peer.sent == msg", "result == len(msg)"],
    raises_only=["pycomm3.exceptions.CommError"],
    ensures_exc=["peer.faults > 0"],
    loops={1: {"havoc": {"total_sent": P.int(0, None), "peer.sent": "=msg[:total_sent]"},
               "invariant": ["total_sent <= len(msg)", "peer.faults == 0"],
               "decreases": "len(msg) - total_sent"}},
    props=["C12"])
