"""Contracts for STRINGN and the composite constructors Array / Struct on a finite set of type instances
(each instance proved for ALL values / ALL buffers; the set of instances is the bound, stated in the evidence)."""
from pyvc.api import contract, lemma, P

DT = "pycomm3.cip.data_types."
A = DT + "Array"
S = DT + "Struct"

contract(
    id="stringn.encode", func=DT + "STRINGN.encode", call="cls.encode(value, char_size)", bind={"cls": [DT + "STRINGN"]},
    params={"value": P.oneof(P.str(maxcp=0xFFFF), P.const("None"), P.const("b'ab'"), P.any()),
            "char_size": P.oneof(P.const("1"), P.const("2"), P.const("4"), P.const("3"), P.const("0"), P.const("None"), P.const("'1'"), P.any())},
    ref="spec.cip_codec.encode_stringn(value, char_size)", props=["C06", "C07", "C08"])
contract(
    id="stringn.decode", func=DT + "DataType.decode", call="cls.decode(buffer)", bind={"cls": [DT + "STRINGN"]},
    params={"buffer": P.oneof(P.bytes(), P.stream(P.bytes()), P.const("None"), P.any())},
    ref="spec.cip_codec.decode_stringn(buffer)", compare=["result", "exc", "stream:buffer"], props=["C06", "C07", "C08"],
    bounded="UTF-8 / UTF-16 decoding of arbitrary bytes is outside the engine's string model")
for _cs in (1, 2, 4):
    contract(
        id=f"stringn.roundtrip.{_cs}", func=DT + "DataType.decode", call="cls.decode(buffer)", bind={"cls": [DT + "STRINGN"]},
        params={"value": P.str(maxcp=0x7F if _cs == 1 else 0xFFFF, maxlen=65535), "rest": P.bytes()},
        setup=[f"buffer = io.BytesIO(spec.cip_codec.encode_stringn(value, {_cs}) + rest)"],
        ensures=["result == value", "buffer.read() == rest"], props=["C06"])


def _arr(n, elem_expr, elem_desc):
    n_expr = n if not isinstance(n, str) else DT + n
    n_desc = n if not isinstance(n, str) else repr(n)
    return f"({A}({n_expr}, {elem_expr}), ('array', {n_desc}, {elem_desc}))"


ELEMS = [(DT + "UINT", "'UINT'", P.int()), (DT + "SINT", "'SINT'", P.int()), (DT + "BOOL", "'BOOL'", P.bool()),
         (DT + "STRING", "'STRING'", P.str(maxcp=0xFF)), (DT + "REAL", "'REAL'", P.float())]

# fixed-length arrays: values shorter / equal / longer than n
for _e, _d, _p in ELEMS:
    for _n in (0, 1, 2, 3):
        for _k in sorted({0, max(_n - 1, 0), _n, _n + 1}):
            contract(
                id=f"array.fixed.encode.{_d.strip(chr(39))}.{_n}.{_k}", func=A + ".<locals>.Array.encode",
                call="case[0].encode(values)", bind={"case": [_arr(_n, _e, _d)]},
                params={"values": P.list(_p, _k)},
                ref="spec.cip_codec.encode(case[1], values)", props=["C06", "C07", "C08"])
        contract(
            id=f"array.fixed.decode.{_d.strip(chr(39))}.{_n}", func=A + ".<locals>.Array.decode",
            call="case[0].decode(buffer)", bind={"case": [_arr(_n, _e, _d)]},
            params={"buffer": P.oneof(P.bytes(), P.stream(P.bytes()))},
            ref="spec.cip_codec.decode(case[1], buffer)", compare=["result", "exc", "stream:buffer"],
            props=["C06", "C07", "C08"])

# wrong-typed values
contract(
    id="array.encode.wrongtype", func=A + ".<locals>.Array.encode", call="case[0].encode(values)",
    bind={"case": [_arr(2, DT + "UINT", "'UINT'"), _arr(None, DT + "UINT", "'UINT'"), _arr("USINT", DT + "UINT", "'UINT'")]},
    params={"values": P.oneof(P.const("None"), P.const("5"), P.any(), P.list(P.oneof(P.int(), P.const("None"), P.any()), 2))},
    ref="spec.cip_codec.encode(case[1], values)", props=["C08"])
contract(
    id="array.decode.wrongtype", func=A + ".<locals>.Array.decode", call="case[0].decode(buffer)",
    bind={"case": [_arr(2, DT + "UINT", "'UINT'"), _arr(None, DT + "UINT", "'UINT'")]},
    params={"buffer": P.oneof(P.const("None"), P.const("5"), P.any())},
    ref="spec.cip_codec.decode(case[1], buffer)", props=["C08"])

# length-prefixed arrays
for _lt in ("USINT", "UINT"):
    for _k in (0, 1, 3):
        contract(
            id=f"array.prefixed.encode.{_lt}.{_k}", func=A + ".<locals>.Array.encode", call="case[0].encode(values)",
            bind={"case": [_arr(_lt, DT + "UINT", "'UINT'")]}, params={"values": P.list(P.int(), _k)},
            ref="spec.cip_codec.encode(case[1], values)", props=["C06", "C07", "C08"])
    contract(
        id=f"array.prefixed.decode.{_lt}", func=A + ".<locals>.Array.decode", call="case[0].decode(buffer)",
        bind={"case": [_arr(_lt, DT + "UINT", "'UINT'")]},
        params={"buffer": P.oneof(P.bytes(maxlen=7), P.stream(P.bytes(maxlen=7)))},
        requires=[], ref="spec.cip_codec.decode(case[1], buffer)", compare=["result", "exc", "stream:buffer"],
        props=["C06", "C07", "C08"], max_paths=4000)

# unbounded arrays
for _e, _d, _p in ELEMS[:3]:
    for _k in (0, 1, 3):
        contract(
            id=f"array.unbounded.encode.{_d.strip(chr(39))}.{_k}", func=A + ".<locals>.Array.encode", call="case[0].encode(values)",
            bind={"case": [_arr(None, _e, _d)]}, params={"values": P.list(_p, _k)},
            ref="spec.cip_codec.encode(case[1], values)", props=["C06", "C07", "C08"])
    contract(
        id=f"array.unbounded.decode.{_d.strip(chr(39))}", func=A + ".<locals>.Array.decode", call="case[0].decode(buffer)",
        bind={"case": [_arr(None, _e, _d)]},
        params={"buffer": P.oneof(P.bytes(maxlen=6), P.stream(P.bytes(maxlen=6)))},
        ref="spec.cip_codec.decode(case[1], buffer)", compare=["result", "exc", "stream:buffer"],
        props=["C06", "C07", "C08"], note="buffer length bounded by 6 (loop unrolled); all contents")

# structures: dict and positional forms
STRUCTS = [
    (f"{S}({DT}UINT('a'), {DT}SINT('b'))", "('struct', (('a', 'UINT'), ('b', 'SINT')))",
     P.dict(a=P.int(), b=P.int()), [P.int(), P.int()]),
    (f"{S}({DT}USINT('n'), {DT}STRING('s'), {DT}BOOL('f'))", "('struct', (('n', 'USINT'), ('s', 'STRING'), ('f', 'BOOL')))",
     P.dict(n=P.int(), s=P.str(maxcp=0xFF), f=P.bool()), [P.int(), P.str(maxcp=0xFF), P.bool()]),
    (f"{S}({DT}UINT('x'), {DT}UINT, {DT}DINT('y'))", "('struct', (('x', 'UINT'), (None, 'UINT'), ('y', 'DINT')))",
     None, [P.int(), P.int(), P.int()]),
    (f"{S}()", "('struct', ())", P.dict(), []),
    (f"{S}({S}({DT}UINT('p'), {DT}UINT('q'))('in'), {A}(2, {DT}USINT)('arr'))",
     "('struct', (('in', ('struct', (('p', 'UINT'), ('q', 'UINT')))), ('arr', ('array', 2, 'USINT'))))",
     P.dict(**{"in": P.dict(p=P.int(), q=P.int()), "arr": P.list(P.int(), 2)}),
     [P.list(P.int(), 2), P.list(P.int(), 2)]),
]
for _i, (_e, _d, _pd, _pl) in enumerate(STRUCTS):
    _case = f"({_e}, {_d})"
    if _pd is not None:
        contract(
            id=f"struct.encode.dict.{_i}", func=DT + "DataType.encode", call="case[0].encode(values)", bind={"case": [_case]},
            params={"values": _pd}, ref="spec.cip_codec.encode(case[1], values)", props=["C06", "C07", "C08"])
    for _k in sorted({len(_pl), max(len(_pl) - 1, 0), len(_pl) + 1}):
        contract(
            id=f"struct.encode.seq.{_i}.{_k}", func=DT + "DataType.encode", call="case[0].encode(values)", bind={"case": [_case]},
            params={"values": P.tuple(*(_pl + [P.int()])[:_k]) if _k else P.const("()")},
            ref="spec.cip_codec.encode(case[1], values)", props=["C06", "C07", "C08"])
    contract(
        id=f"struct.encode.wrongtype.{_i}", func=DT + "DataType.encode", call="case[0].encode(values)", bind={"case": [_case]},
        params={"values": P.oneof(P.const("None"), P.const("5"), P.any(), P.const("{'zz': 1}"))},
        ref="spec.cip_codec.encode(case[1], values)", props=["C08"])
    contract(
        id=f"struct.decode.{_i}", func=DT + "DataType.decode", call="case[0].decode(buffer)", bind={"case": [_case]},
        params={"buffer": P.oneof(P.bytes(), P.stream(P.bytes()), P.const("None"), P.any())},
        ref="spec.cip_codec.decode(case[1], buffer)", compare=["result", "exc", "stream:buffer"], props=["C06", "C07", "C08"])
