"""Contracts for STRINGN and the composite constructors Array / Struct on a finite set of type instances
(each instance proved for ALL values / ALL buffers; the set of instances is the bound, stated in the evidence)."""
from pyvc.api import contract, lemma, P

DT = "pycomm3.cip.data_types."
A = DT + "Array"
S = DT + "Struct"

contract(
    id="stringn.encode", func=DT + "STRINGN.encode", call="cls.encode(value, char_size)", bind={"cls": [DT + "STRINGN"]},
    params={"value": P.oneof(P.str(maxcp=0xFFFF), P.const("None"), P.const("b'ab'"), P.any()),
            "char_size": P.oneof(P.const("1"), P.const("2"), P.const("4"), P.const("3"), P.const("0"), P.const("None"), P.const("'1'"), P.any())},
    ref="spec.cip_codec.encode_stringn(value, char_size)", props=["C06", "C07", "C08"])
contract(
    id="stringn.decode", func=DT + "DataType.decode", call="cls.decode(buffer)", bind={"cls": [DT + "STRINGN"]},
    params={"buffer": P.oneof(P.bytes(), P.stream(P.bytes()), P.const("None"), P.any())},
    ref="spec.cip_codec.decode_stringn(buffer)", compare=["result", "exc", "stream:buffer"], props=["C06", "C07", "C08"],
    bounded="UTF-8 / UTF-16 decoding of arbitrary bytes is outside the engine's string model")
for _cs in (1, 2, 4):
    contract(
        id=f"stringn.roundtrip.{_cs}", func=DT + "DataType.decode", call="cls.decode(buffer)", bind={"cls": [DT + "STRINGN"]},
        params={"value": P.str(maxcp=0x7F if _cs == 1 else 0xFFFF, maxlen=65535), "rest": P.bytes()},
        setup=[f"buffer = io.BytesIO(spec.cip_codec.encode_stringn(value, {_cs}) + rest)"],
        ensures=["result == value", "buffer.read() == rest"], props=["C06"])


def _arr(n, elem_expr, elem_desc):
    n_expr = n if not isinstance(n, str) else DT + n
    n_desc = n if not isinstance(n, str) else repr(n)
    return f"({A}({n_expr}, {elem_expr}), ('array', {n_desc}, {elem_desc}))"


ELEMS = [(DT + "UINT", "'UINT'", P.int()), (DT + "SINT", "'SINT'", P.int()), (DT + "BOOL", "'BOOL'", P.bool()),
         (DT + "STRING", "'STRING'", P.str(maxcp=0xFF)), (DT + "REAL", "'REAL'", P.float())]

# fixed-length arrays: values shorter / equal / longer than n
for _e, _d, _p in ELEMS:
    for _n in (0, 1, 2, 3):
        for _k in sorted({0, max(_n - 1, 0), _n, _n + 1}):
            contract(
                id=f"array.fixed.encode.{_d.strip(chr(39))}.{_n}.{_k}", func=A + ".<locals>.Array.encode",
                call="case[0].encode(values)", bind={"case": [_arr(_n, _e, _d)]},
                params={"values": P.list(_p, _k)},
                ref="spec.cip_codec.encode(case[1], values)", props=["C06", "C07", "C08"])
        contract(
            id=f"array.fixed.decode.{_d.strip(chr(39))}.{_n}", func=A + ".<locals>.Array.decode",
            call="case[0].decode(buffer)", bind={"case": [_arr(_n, _e, _d)]},
            params={"buffer": P.oneof(P.bytes(), P.stream(P.bytes()))},
            ref="spec.cip_codec.decode(case[1], buffer)", compare=["result", "exc", "stream:buffer"],
            props=["C06", "C07", "C08"])

# wrong-typed values
contract(
    id="array.encode.wrongtype", func=A + ".<locals>.Array.encode", call="case[0].encode(values)",
    bind={"case": [_arr(2, DT + "UINT", "'UINT'"), _arr(None, DT + "UINT", "'UINT'"), _arr("USINT", DT + "UINT", "'UINT'")]},
    params={"values": P.oneof(P.const("None"), P.const("5"), P.any(), P.list(P.oneof(P.int(), P.const("None"), P.any()), 2))},
    ref="spec.cip_codec.encode(case[1], values)", props=["C08"])
contract(
    id="array.decode.wrongtype", func=A + ".<locals>.Array.decode", call="case[0].decode(buffer)",
    bind={"case": [_arr(2, DT + "UINT", "'UINT'"), _arr(None, DT + "UINT", "'UINT'")]},
    params={"buffer": P.oneof(P.const("None"), P.const("5"), P.any())},
    ref="spec.cip_codec.decode(case[1], buffer)", props=["C08"])

# length-prefixed arrays
for _lt in ("USINT", "UINT"):
    for _k in (0, 1, 3):
        contract(
            id=f"array.prefixed.encode.{_lt}.{_k}", func=A + ".<locals>.Array.encode", call="case[0].encode(values)",
            bind={"case": [_arr(_lt, DT + "UINT", "'UINT'")]}, params={"values": P.list(P.int(), _k)},
            ref="spec.cip_codec.encode(case[1], values)", props=["C06", "C07", "C08"])
    contract(
        id=f"array.prefixed.decode.{_lt}", func=A + ".<locals>.Array.decode", call="case[0].decode(buffer)",
        bind={"case": [_arr(_lt, DT + "UINT", "'UINT'")]},
        params={"buffer": P.oneof(P.bytes(maxlen=7), P.stream(P.bytes(maxlen=7)))},
        requires=[], ref="spec.cip_codec.decode(case[1], buffer)", compare=["result", "exc", "stream:buffer"],
        props=["C06", "C07", "C08"], max_paths=4000)

# unbounded arrays
for _e, _d, _p in ELEMS[:3]:
    for _k in (0, 1, 3):
        contract(
            id=f"array.unbounded.encode.{_d.strip(chr(39))}.{_k}", func=A + ".<locals>.Array.encode", call="case[0].encode(values)",
            bind={"case": [_arr(None, _e, _d)]}, params={"values": P.list(_p, _k)},
            ref="spec.cip_codec.encode(case[1], values)", props=["C06", "C07", "C08"])
    contract(
        id=f"array.unbounded.decode.{_d.strip(chr(39))}", func=A + ".<locals>.Array.decode", call="case[0].decode(buffer)",
        bind={"case": [_arr(None, _e, _d)]},
        params={"buffer": P.oneof(P.bytes(maxlen=6), P.stream(P.bytes(maxlen=6)))},
        ref="spec.cip_codec.decode(case[1], buffer)", compare=["result", "exc", "stream:buffer"],
        props=["C06", "C07", "C08"], note="buffer length bounded by 6 (loop unrolled); all contents")

# structures: dict and positional forms
STRUCTS = [
    (f"{S}({DT}UINT('a'), {DT}SINT('b'))", "('struct', (('a', 'UINT'), ('b', 'SINT')))",
     P.dict(a=P.int(), b=P.int()), [P.int(), P.int()]),
    (f"{S}({DT}USINT('n'), {DT}STRING('s'), {DT}BOOL('f'))", "('struct', (('n', 'USINT'), ('s', 'STRING'), ('f', 'BOOL')))",
     P.dict(n=P.int(), s=P.str(maxcp=0xFF), f=P.bool()), [P.int(), P.str(maxcp=0xFF), P.bool()]),
    (f"{S}({DT}UINT('x'), {DT}UINT, {DT}DINT('y'))", "('struct', (('x', 'UINT'), (None, 'UINT'), ('y', 'DINT')))",
     None, [P.int(), P.int(), P.int()]),
    (f"{S}()", "('struct', ())", P.dict(), []),
    # unnamed members of variable size are consumed like named ones (reserved / filler strings)
    (f"{S}({DT}UINT('before'), {DT}SHORT_STRING, {DT}DINT('after'))",
     "('struct', (('before', 'UINT'), (None, 'SHORT_STRING'), ('after', 'DINT')))", None, [P.int(), P.str(maxcp=0xFF), P.int()]),
    (f"{S}({DT}STRING, pycomm3.custom_types.FixedSizeString(4), {DT}USINT('after'))",
     "('struct', ((None, 'STRING'), (None, ('fixedstring', 4)), ('after', 'USINT')))", None, [P.str(maxcp=0xFF), P.str(maxcp=0xFF), P.int()]),
    (f"{S}({S}({DT}UINT('p'), {DT}UINT('q'))('in'), {A}(2, {DT}USINT)('arr'))",
     "('struct', (('in', ('struct', (('p', 'UINT'), ('q', 'UINT')))), ('arr', ('array', 2, 'USINT'))))",
     P.dict(**{"in": P.dict(p=P.int(), q=P.int()), "arr": P.list(P.int(), 2)}),
     [P.list(P.int(), 2), P.list(P.int(), 2)]),
]
for _i, (_e, _d, _pd, _pl) in enumerate(STRUCTS):
    _case = f"({_e}, {_d})"
    if _pd is not None:
        contract(
            id=f"struct.encode.dict.{_i}", func=DT + "DataType.encode", call="case[0].encode(values)", bind={"case": [_case]},
            params={"values": _pd}, ref="spec.cip_codec.encode(case[1], values)", props=["C06", "C07", "C08"])
    for _k in sorted({len(_pl), max(len(_pl) - 1, 0), len(_pl) + 1}):
        contract(
            id=f"struct.encode.seq.{_i}.{_k}", func=DT + "DataType.encode", call="case[0].encode(values)", bind={"case": [_case]},
            params={"values": P.tuple(*(_pl + [P.int()])[:_k]) if _k else P.const("()")},
            ref="spec.cip_codec.encode(case[1], values)", props=["C06", "C07", "C08"])
    contract(
        id=f"struct.encode.wrongtype.{_i}", func=DT + "DataType.encode", call="case[0].encode(values)", bind={"case": [_case]},
        params={"values": P.oneof(P.const("None"), P.const("5"), P.any(), P.const("{'zz': 1}"))},
        ref="spec.cip_codec.encode(case[1], values)", props=["C08"])
    contract(
        id=f"struct.decode.{_i}", func=DT + "DataType.decode", call="case[0].decode(buffer)", bind={"case": [_case]},
        params={"buffer": P.oneof(P.bytes(), P.stream(P.bytes()), P.const("None"), P.any())},
        ref="spec.cip_codec.decode(case[1], buffer)", compare=["result", "exc", "stream:buffer"], props=["C06", "C07", "C08"])

# ---- the T[n] spelling builds the array of exactly that element type, however many array types were built before
FS = "pycomm3.custom_types.FixedSizeString"
contract(
    id="array.subscript.distinct_types", func=DT + "_DataTypeMeta.__getitem__", call="T2[2]",
    bind={"pair": [f"({FS}(8), {FS}(4))", f"({DT}n_bytes(2).__class__, {DT}n_bytes(5).__class__)",
                   f"({S}({DT}UINT('a')), {S}({DT}UINT('a'), {DT}UINT('b')))"]},
    setup=["T1 = pair[0]", "T2 = pair[1]", "first = T1[2]"],
    ensures=["result.element_type is T2", "result.length == 2", "first.element_type is T1", "result is not first"],
    props=["C06"])


# ---- Array / Struct over an ABSTRACT element type (modular: checked against the element's codec contract, not a body) ----
# spec.abstract.element_type is the assumed contract every concrete type is separately proved to satisfy (codec_elementary,
# the string / fixed-string / structtag contracts): these obligations therefore hold for every element type, the instance
# bound that remains is the array length / member count.
AB = "spec.abstract."
for _n in (0, 1, 2, 3):
    contract(
        id=f"array.abstract.decode.{_n}", func=A + ".<locals>.Array.decode", call="T.decode(buffer)",
        bind={"minsize": ["0", "1"]}, params={"before": P.bytes(), "rest": P.bytes()}, nondet=True,
        setup=[f"E = {AB}element_type('E', minsize)", f"T = {A}({_n}, E)", "data = before + rest", "skip = len(before)",
               "buffer = io.BytesIO(data)", "junk = buffer.read(skip)"],
        ensures=[f"len(E.calls) == {_n}", f"{AB}contiguous_ok(E.calls, skip)", "result == [c[3] for c in E.calls]",
                 f"buffer.tell() == {AB}end_of(E.calls, skip)"],
        raises_only=["pycomm3.exceptions.DataError"],
        ensures_exc=["implies(isinstance(exc, pycomm3.exceptions.BufferEmptyError), skip == len(data) and buffer.tell() == skip)",
                     "len(E.calls) >= 1 and E.calls[-1][2] != 'ok'",
                     f"{AB}contiguous_ok(E.calls[:-1], skip)"],
        props=["C06", "C07", "C08"], max_paths=4000)
    for _k in sorted({max(_n - 1, 0), _n, _n + 1}):
        contract(
            id=f"array.abstract.encode.{_n}.{_k}", func=A + ".<locals>.Array.encode", call="T.encode(values)",
            params={"values": P.list(P.int(), _k)}, nondet=True,
            setup=[f"E = {AB}element_type('E', 0)", f"T = {A}({_n}, E)"],
            ensures=[f"{_k} >= {_n}", f"result == b''.join(E.image(v) for v in values[:{_n}])",
                     f"[e[0] for e in E.encodes] == values[:{_n}]", "all(e[1] for e in E.encodes)"],
            raises_only=["pycomm3.exceptions.DataError"],
            ensures_exc=[f"{_k} < {_n} or (len(E.encodes) >= 1 and not E.encodes[-1][1])"],
            props=["C06", "C07", "C08"], max_paths=4000)
# length-prefixed over an abstract element (elements of at least one byte; buffers <= 6 bytes after the prefix)
contract(
    id="array.abstract.prefixed.decode", func=A + ".<locals>.Array.decode", call="T.decode(buffer)",
    params={"data": P.bytes(minlen=1, maxlen=5)}, nondet=True,
    setup=[f"E = {AB}element_type('E', 1)", f"T = {A}({DT}USINT, E)", "buffer = io.BytesIO(data)"],
    ensures=["len(E.calls) == data[0]", f"{AB}contiguous_ok(E.calls, 1)", "result == [c[3] for c in E.calls]",
             f"buffer.tell() == {AB}end_of(E.calls, 1)"],
    raises_only=["pycomm3.exceptions.DataError"],
    ensures_exc=["not isinstance(exc, pycomm3.exceptions.BufferEmptyError)", "len(E.calls) >= 1 and E.calls[-1][2] != 'ok'",
                 "len(E.calls) <= data[0]"],
    props=["C06", "C07", "C08"], max_paths=20000)
for _k in (0, 1, 3):
    contract(
        id=f"array.abstract.prefixed.encode.{_k}", func=A + ".<locals>.Array.encode", call="T.encode(values)",
        params={"values": P.list(P.int(), _k)}, nondet=True,
        setup=[f"E = {AB}element_type('E', 0)", f"T = {A}({DT}USINT, E)"],
        ensures=[f"result == bytes([{_k}]) + b''.join(E.image(v) for v in values)", "all(e[1] for e in E.encodes)"],
        raises_only=["pycomm3.exceptions.DataError"], ensures_exc=["len(E.encodes) >= 1 and not E.encodes[-1][1]"],
        props=["C06", "C07", "C08"], max_paths=4000)
# unbounded array over an abstract element of at least one byte: decodes exactly the elements the buffer holds
contract(
    id="array.abstract.unbounded.decode", func=A + ".<locals>.Array.decode", call="T.decode(buffer)",
    params={"data": P.bytes(maxlen=4)}, nondet=True,
    setup=[f"E = {AB}element_type('E', 1)", f"T = {A}(None, E)", "buffer = io.BytesIO(data)"],
    ensures=["len(E.calls) >= 1 and E.calls[-1][2] == 'empty'", f"{AB}contiguous_ok(E.calls[:-1], 0)",
             "result == [c[3] for c in E.calls[:-1]]", "buffer.tell() == len(data)"],
    raises_only=["pycomm3.exceptions.DataError"],
    ensures_exc=["not isinstance(exc, pycomm3.exceptions.BufferEmptyError)", "len(E.calls) >= 1 and E.calls[-1][2] == 'error'"],
    props=["C06", "C08"], max_paths=20000)

# structures over abstract members: every member decoded once, front to back, each where the previous one ended
_MEMBERS = {0: [], 1: ["'a'"], 2: ["'a'", "'b'"], 3: ["'a'", "None", "'c'"]}
for _k, _names in _MEMBERS.items():
    _mk = [f"E{i} = {AB}element_type('E{i}', minsize)" for i in range(_k)]
    _ms = ", ".join(f"E{i}({nm})" if nm != "None" else f"E{i}" for i, nm in enumerate(_names))
    _types = "[" + ", ".join(f"E{i}" for i in range(_k)) + "]"
    _named = "{" + ", ".join(f"{nm}: E{i}.calls[0][3]" for i, nm in enumerate(_names) if nm != "None") + "}"
    contract(
        id=f"struct.abstract.decode.{_k}", func=DT + "DataType.decode", call="T.decode(buffer)",
        bind={"minsize": ["0", "1"]}, params={"before": P.bytes(), "rest": P.bytes()}, nondet=True,
        setup=_mk + [f"T = {S}({_ms})", f"types = {_types}", "data = before + rest", "skip = len(before)",
                     "buffer = io.BytesIO(data)", "junk = buffer.read(skip)"],
        ensures=[f"len({AB}member_calls(types)) == {_k}", f"{AB}contiguous_ok({AB}member_calls(types), skip)",
                 f"result == {_named}", f"buffer.tell() == {AB}end_of({AB}member_calls(types), skip)"],
        raises_only=["pycomm3.exceptions.DataError"],
        ensures_exc=["implies(isinstance(exc, pycomm3.exceptions.BufferEmptyError), skip == len(data) and buffer.tell() == skip)",
                     f"{AB}called_in_order(types)", f"len({AB}member_calls(types)) >= 1 and {AB}member_calls(types)[-1][2] != 'ok'",
                     f"{AB}contiguous_ok({AB}member_calls(types)[:-1], skip)"],
        props=["C06", "C07", "C08"], max_paths=4000)
    _mk0 = [f"E{i} = {AB}element_type('E{i}', 0)" for i in range(_k)]
    _join = "b''.join([" + ", ".join(f"E{i}.image(values[{i}])" for i in range(_k)) + "])"
    for _m in sorted({max(_k - 1, 0), _k, _k + 1}):
        contract(
            id=f"struct.abstract.encode.seq.{_k}.{_m}", func=DT + "DataType.encode", call="T.encode(values)",
            bind={"form": ["list", "tuple"]}, params={"vals": P.list(P.int(), _m)}, nondet=True,
            setup=_mk0 + [f"T = {S}({_ms})", "values = form(vals)"],
            ensures=[f"{_m} == {_k}", f"result == {_join}"] + [f"E{i}.encodes == [(values[{i}], True)]" for i in range(_k)],
            raises_only=["pycomm3.exceptions.DataError"],
            ensures_exc=[f"{_m} != {_k} or any(len(t.encodes) == 1 and not t.encodes[0][1] for t in {_types})"],
            props=["C06", "C07", "C08"], max_paths=4000)
    if "None" not in _names:
        _dict = "{" + ", ".join(f"{nm}: vals[{i}]" for i, nm in enumerate(_names)) + "}"
        contract(      # the dict form gives the same bytes as the positional form: both equal the concatenated member images
            id=f"struct.abstract.encode.dict.{_k}", func=DT + "DataType.encode", call="T.encode(values)",
            params={"vals": P.list(P.int(), _k)}, nondet=True,
            setup=_mk0 + [f"T = {S}({_ms})", f"values = {_dict}"],
            ensures=["result == " + _join.replace("values[", "vals[")] + [f"E{i}.encodes == [(vals[{i}], True)]" for i in range(_k)],
            raises_only=["pycomm3.exceptions.DataError"],
            ensures_exc=[f"any(len(t.encodes) == 1 and not t.encodes[0][1] for t in {_types})"],
            props=["C06", "C07", "C08"], max_paths=4000)

# ---- arrays of bit strings (BOOL arrays of a Logix controller are DWORD arrays): one flat list of bools, 8*width per element
for _bt, _w in (("BYTE", 8), ("DWORD", 32)):
    for _n in (0, 1, 2):
        for _k in sorted({max(_n * _w - 1, 0), _n * _w, _n * _w + 1, (_n + 1) * _w}):
            contract(
                id=f"array.bits.fixed.encode.{_bt}.{_n}.{_k}", func=A + ".<locals>.Array.encode", call="case[0].encode(values)",
                bind={"case": [_arr(_n, DT + _bt, repr(_bt))]}, params={"values": P.list(P.bool(), _k)},
                ref="spec.cip_codec.encode(case[1], values)", props=["C06", "C07", "C08"])
        contract(
            id=f"array.bits.fixed.decode.{_bt}.{_n}", func=A + ".<locals>.Array.decode", call="case[0].decode(buffer)",
            bind={"case": [_arr(_n, DT + _bt, repr(_bt))]}, params={"buffer": P.oneof(P.bytes(), P.stream(P.bytes()))},
            ref="spec.cip_codec.decode(case[1], buffer)", compare=["result", "exc", "stream:buffer"], props=["C06", "C07", "C08"])
    for _k in sorted({0, _w - 1, _w, _w + 1, 2 * _w}):
        for _lt in (None, "USINT"):
            contract(
                id=f"array.bits.{'unbounded' if _lt is None else 'prefixed'}.encode.{_bt}.{_k}", func=A + ".<locals>.Array.encode",
                call="case[0].encode(values)", bind={"case": [_arr(_lt, DT + _bt, repr(_bt))]}, params={"values": P.list(P.bool(), _k)},
                ref="spec.cip_codec.encode(case[1], values)", props=["C06", "C07", "C08"])
    for _lt in (None, "USINT"):
        contract(
            id=f"array.bits.{'unbounded' if _lt is None else 'prefixed'}.decode.{_bt}", func=A + ".<locals>.Array.decode",
            call="case[0].decode(buffer)", bind={"case": [_arr(_lt, DT + _bt, repr(_bt))]},
            params={"buffer": P.oneof(P.bytes(maxlen=2 * _w // 8 + 2), P.stream(P.bytes(maxlen=2 * _w // 8 + 2)))},
            ref="spec.cip_codec.decode(case[1], buffer)", compare=["result", "exc", "stream:buffer"], props=["C06", "C07", "C08"],
            note="buffer length bounded (two elements and a bit); all contents")
