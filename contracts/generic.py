"""C14 -- generic messaging delivers the request verbatim and returns the answer."""
from pyvc.api import contract, P

VAL = P.oneof(P.int(0, 0xFFFFFFFF), P.bytes(len=1), P.bytes(len=2), P.bytes(len=4))
ATTR = P.oneof(P.int(1, 0xFFFF), P.bytes(len=1), P.const("b''"), P.const("0"))
DRV = ["d = pycomm3.cip_driver.CIPDriver(path)", "d._session = session", "d._target_cid = cid",
       "d._target_is_connected = True", "d._connection_opened = True"]
COMMON = {"session": P.int(1, 0xFFFFFFFF), "cid": P.bytes(len=4), "class_code": P.int(0, 0xFFFFFFFF),
          "instance": P.oneof(P.int(0, 0xFFFFFFFF), P.bytes(len=1)), "attribute": P.oneof(P.int(0, 0xFFFF), P.const("b''")),
          "data": P.bytes(maxlen=400), "payload": P.bytes(maxlen=400)}
SVC = ["0x01", "0x0e", "0x4c", "0x10", "0x5b"]

contract(
    id="generic.connected", func="pycomm3.cip_driver.CIPDriver.generic_message",
    call="d.generic_message(service=svc, class_code=class_code, instance=instance, attribute=attribute, request_data=data, name='x')",
    bind={"svc": SVC, "status": ["0", "5", "6"], "path": ["'10.0.0.1'"]}, params=dict(COMMON),      # 6 = partial transfer: an error for these services
    setup=DRV + ["t = spec.env.Transport([spec.msgrouter.connected_reply(svc, status, payload)])", "d._sock = t"],
    ensures=["len(t.sent) == 1",
             "spec.encap.try_parse_frame(t.sent[0])[3][0] == 'connected' and spec.encap.try_parse_frame(t.sent[0])[3][1] == cid",
             "spec.encap.try_parse_frame(t.sent[0])[3][3] == bytes([svc]) + "
             "spec.abstract.bytes_of(spec.epath.encode_request_path, class_code, instance, attribute) + data",
             "result.tag == 'x'", "bool(result) == (status == 0)",
             "(result.value == payload and result.error is None) if status == 0 else "
             "(isinstance(result.error, str) and len(result.error) > 0)"],
    props=["C14"])

# UCMM direct: the request, followed by the encoded route when one is asked for
for _route, _expect in (("False", "b''"), ("True", "route"), ("b'\\x01\\x00\\x01\\x03'", "b'\\x01\\x00\\x01\\x03'"),
                        ("'bp/3'", "b'\\x01\\x00\\x01\\x03'"),
                        ("[pycomm3.cip.data_types.PortSegment('bp', 3)]", "b'\\x01\\x00\\x01\\x03'")):
    contract(
        id=f"generic.ucmm.{_route[:12]}", func="pycomm3.cip_driver.CIPDriver.generic_message",
        call=f"d.generic_message(service=svc, class_code=class_code, instance=instance, attribute=attribute, request_data=data, "
             f"connected=False, unconnected_send=False, route_path={_route}, name='x')",
        bind={"svc": SVC[:3], "status": ["0", "5"], "path": ["'10.0.0.1/bp/2'", "'10.0.0.1'"]}, params=dict(COMMON),
        setup=DRV + ["t = spec.env.Transport([spec.msgrouter.unconnected_reply(svc, status, payload)])", "d._sock = t",
                     "route = pycomm3.cip.data_types.PADDED_EPATH.encode(d._cfg['cip_path'], length=True, pad_length=True)",
                     "sent_data = lambda: spec.encap.try_parse_frame(t.sent[0])[3][1]"],
        ensures=["len(t.sent) == 1", "spec.encap.try_parse_frame(t.sent[0])[3][0] == 'unconnected'",
                 f"sent_data()[len(sent_data()) - len({_expect}):] == {_expect}",
                 f"sent_data()[:len(sent_data()) - len({_expect})] == bytes([svc]) + "
                 "spec.abstract.bytes_of(spec.epath.encode_request_path, class_code, instance, attribute) + data",
                 "bool(result) == (status == 0)",
                 "(result.value == payload and result.error is None) if status == 0 else "
                 "(isinstance(result.error, str) and len(result.error) > 0)"],
        props=["C14"])

# Unconnected Send wrapper
contract(
    id="generic.unconnected_send", func="pycomm3.cip_driver.CIPDriver.generic_message",
    call="d.generic_message(service=svc, class_code=class_code, instance=instance, attribute=attribute, request_data=data, "
         "connected=False, unconnected_send=True, route_path=True, name='x')",
    bind={"svc": SVC[:3], "status": ["0", "5"], "path": ["'10.0.0.1/bp/2'", "'10.0.0.1/bp/1/enet/192.168.1.7/bp/0'"]},
    params=dict(COMMON),
    setup=DRV + ["t = spec.env.Transport([spec.msgrouter.unconnected_reply(svc, status, payload)])", "d._sock = t",
                 "us = lambda: spec.msgrouter.try_parse_unconnected_send(spec.encap.try_parse_frame(t.sent[0])[3][1])"],
    ensures=["len(t.sent) == 1", "us() is not None",
             "us()[0] == bytes([svc]) + spec.abstract.bytes_of(spec.epath.encode_request_path, class_code, instance, attribute) + data",
             "us()[1] == (spec.msgrouter.route_segments([(1, b'\\x02')]) if path == '10.0.0.1/bp/2' else "
             "spec.msgrouter.route_segments([(1, b'\\x01'), (2, b'192.168.1.7'), (1, b'\\x00')]))",
             "bool(result) == (status == 0)", "(result.value == payload) if status == 0 else True"],
    props=["C14", "C15"])

# decoded replies
for _dt, _enc, _p in (("pycomm3.cip.data_types.UINT", "spec.cip_codec.encode_int('UINT', v)", P.int(0, 65535)),
                      ("pycomm3.cip.data_types.STRING", "spec.cip_codec.encode_string('STRING', v)", P.str(maxcp=0xFF, maxlen=300)),
                      ("pycomm3.cip.data_types.DINT", "spec.cip_codec.encode_int('DINT', v)", P.int(-2**31, 2**31 - 1))):
    contract(
        id=f"generic.typed.{_dt.split('.')[-1]}", func="pycomm3.cip_driver.CIPDriver.generic_message",
        call=f"d.generic_message(service=0x0e, class_code=1, instance=1, attribute=1, data_type={_dt}, name='x')",
        bind={"path": ["'10.0.0.1'"]},
        params={"session": P.int(1, 0xFFFFFFFF), "cid": P.bytes(len=4), "v": _p, "junk": P.bytes(maxlen=3)},
        setup=DRV + [f"t = spec.env.Transport([spec.msgrouter.connected_reply(0x0e, 0, {_enc} + junk)])", "d._sock = t"],
        ensures=["result.value == v", "bool(result)", "result.error is None"], props=["C14"])

# ---- helpers built on generic_message
LD = ["d = pycomm3.logix_driver.LogixDriver('10.0.0.1/1')", "d._session = session", "d._target_cid = cid",
      "d._target_is_connected = True", "d._connection_opened = True"]
SC = {"session": P.int(1, 0xFFFFFFFF), "cid": P.bytes(len=4)}
# wall clock: Set_Attribute_List {1 attribute, #6, t};  Get_Attribute_List reply {count 1, #11, status 0, t}
contract(
    id="clock.set", func="pycomm3.logix_driver.LogixDriver.set_plc_time", call="d.set_plc_time(micros)",
    params=dict(SC, micros=P.int(0, 2**64 - 1)),
    setup=LD + ["t = spec.env.Transport([spec.msgrouter.connected_reply(0x04, 0, b'')])", "d._sock = t"],
    ensures=["spec.msgrouter.try_parse_request(spec.encap.try_parse_frame(t.sent[0])[3][3]) == "
             "(0x04, [('logical', 'class_id', 0x8B), ('logical', 'instance_id', 1)], "
             "b'\\x01\\x00\\x06\\x00' + spec.cip_codec.le_uint(micros, 8))", "bool(result)"],
    props=["C14"])
contract(
    id="clock.get", func="pycomm3.logix_driver.LogixDriver.get_plc_time", call="d.get_plc_time()",
    params=dict(SC, micros=P.int(0, 2**64 - 1)),
    setup=LD + ["t = spec.env.Transport([spec.msgrouter.connected_reply(0x03, 0, b'\\x01\\x00\\x0b\\x00\\x00\\x00' + "
                "spec.cip_codec.le_uint(micros, 8))])", "d._sock = t"],
    known=[("KF-PLC-TIME-RANGE", "micros > 253402300799999999")],
    ensures=["result.value['microseconds'] == micros", "bool(result)",
             "spec.msgrouter.try_parse_request(spec.encap.try_parse_frame(t.sent[0])[3][3]) == "
             "(0x03, [('logical', 'class_id', 0x8B), ('logical', 'instance_id', 1)], b'\\x01\\x00\\x0b\\x00')"],
    props=["C14"])
contract(
    id="clock.get.refused", func="pycomm3.logix_driver.LogixDriver.get_plc_time", call="d.get_plc_time()",
    params=dict(SC), bind={"status": ["5", "8", "0x1e"]},
    setup=LD + ["t = spec.env.Transport([spec.msgrouter.connected_reply(0x03, status, b'')])", "d._sock = t"],
    ensures=["not bool(result)", "isinstance(result.error, str) and len(result.error) > 0", "result.value is None"],
    props=["C14"])
# module identity through an Unconnected Send routed to backplane slot `slot`
F = "vendor, product_type, product_code, major, minor, status, serial, name"
contract(
    id="module_info", func="pycomm3.cip_driver.CIPDriver.get_module_info", call="d.get_module_info(slot)",
    params=dict(SC, slot=P.int(0, 255), vendor=P.int(0, 65535), product_type=P.int(0, 65535), product_code=P.int(0, 65535),
                major=P.int(0, 255), minor=P.int(0, 255), status=P.bytes(len=2), serial=P.int(0, 2**32 - 1),
                name=P.str(maxlen=255, maxcp=0xFF)),
    setup=LD + [f"t = spec.env.Transport([spec.msgrouter.unconnected_reply(0x01, 0, spec.identity.identity_bytes({F}))])", "d._sock = t",
                "route_before = pycomm3.cip.data_types.PADDED_EPATH.encode(d._cfg['cip_path'], length=True, pad_length=True)",
                "us = lambda: spec.msgrouter.try_parse_unconnected_send(spec.encap.try_parse_frame(t.sent[0])[3][1])"],
    ensures=[f"result == spec.identity.identity_view({F})",
             "spec.msgrouter.try_parse_request(us()[0]) == (0x01, [('logical', 'class_id', 1), ('logical', 'instance_id', 1)], b'')",
             "us()[1] == [('port', 1, bytes([slot]))]",
             # frame: asking another slot does not re-route the driver itself
             "pycomm3.cip.data_types.PADDED_EPATH.encode(d._cfg['cip_path'], length=True, pad_length=True) == route_before"],
    props=["C14", "C16", "C15"])
contract(
    id="plc_info", func="pycomm3.logix_driver.LogixDriver.get_plc_info", call="d.get_plc_info()",
    params=dict(SC, vendor=P.int(0, 65535), product_type=P.int(0, 65535), product_code=P.int(0, 65535),
                major=P.int(0, 255), minor=P.int(0, 255), status=P.bytes(len=2), serial=P.int(0, 2**32 - 1),
                name=P.str(maxlen=255, maxcp=0xFF)),
    setup=LD + [f"t = spec.env.Transport([spec.msgrouter.unconnected_reply(0x01, 0, spec.identity.identity_bytes({F}))])", "d._sock = t",
                f"expect = spec.identity.identity_view({F})"],
    ensures=["all(result[k] == expect[k] for k in expect)", "sorted(result) == sorted(list(expect) + ['keyswitch'])"],
    props=["C14", "C16"])
contract(
    id="list_identity", func="pycomm3.cip_driver.CIPDriver._list_identity", call="d._list_identity()",
    params=dict(SC, vendor=P.int(0, 65535), product_type=P.int(0, 65535), product_code=P.int(0, 65535),
                major=P.int(0, 255), minor=P.int(0, 255), status=P.bytes(len=2), serial=P.int(0, 2**32 - 1),
                name=P.str(maxlen=255, maxcp=0xFF), version=P.int(0, 65535), ip=P.bytes(len=4), state=P.int(0, 255)),
    setup=LD + [f"item = spec.identity.list_identity_item(version, ip, spec.identity.identity_bytes({F}), state)",
                "t = spec.env.Transport([b'\\x63\\x00' + spec.cip_codec.le_uint(2 + len(item), 2) + bytes(20) + b'\\x01\\x00' + item])",
                "d._sock = t"],
    ensures=[f"result == dict(spec.identity.identity_view({F}), encap_protocol_version=version, "
             "ip_address=spec.identity.dotted(ip), state=state)",
             "spec.encap.try_parse_frame(t.sent[0]) == (0x63, session, b'_pycomm_', ('empty',))"],
    props=["C16", "C11"])

# the default route of an unconnected message is the driver's CURRENT route (LogixDriver shortens it after identifying a Micro800)
contract(
    id="generic.route.current", func="pycomm3.cip_driver.CIPDriver.generic_message",
    call="d.generic_message(service=0x0e, class_code=1, instance=1, attribute=1, connected=False, unconnected_send=True, route_path=True)",
    bind={"path": ["'10.0.0.1/bp/1/enet/192.168.1.7/bp/0'", "'10.0.0.1/bp/2'"], "before": ["0", "1", "2"]},
    params={"session": P.int(1, 0xFFFFFFFF), "cid": P.bytes(len=4)},
    setup=DRV + ["t = spec.env.Transport([spec.msgrouter.unconnected_reply(0x0e, 0, b'ok')] * (before + 1))", "d._sock = t",
                 "earlier = [d.generic_message(service=0x0e, class_code=1, instance=1, attribute=1, connected=False, unconnected_send=True, "
                 "route_path=True) for _ in range(before)]",
                 "removed = d._cfg['cip_path'].pop()",
                 "us = lambda: spec.msgrouter.try_parse_unconnected_send(spec.encap.try_parse_frame(t.sent[-1])[3][1])"],
    ensures=["len(t.sent) == before + 1", "us() is not None",
             "us()[1] == (spec.msgrouter.route_segments([]) if path == '10.0.0.1/bp/2' else "
             "spec.msgrouter.route_segments([(1, b'\\x01'), (2, b'192.168.1.7')]))", "result.value == b'ok'"],
    props=["C14", "C15"])

# ---- LogixDriver initialisation after open(): identify the target, read the controller info, the program name (not on a
# Micro800), drop the trailing backplane hop for a Micro800, use instance ids from revision 21 on (never on a Micro800)
_ID = "spec.identity.identity_bytes(1, 14, 55, major, 3, b'\\x30\\x60', 0xC0FFEE, pname)"
_LI = ("b'\\x63\\x00' + spec.cip_codec.le_uint(2 + len(item), 2) + bytes(20) + b'\\x01\\x00' + item")
for _kind, _pname, _micro in (("logix", "'1756-L83E/B'", False), ("micro800", "'2080-LC50-48QWB'", True)):
    _replies = ["li", f"spec.msgrouter.unconnected_reply(0x01, 0, {_ID})"]
    if not _micro:
        _replies += ["spec.env.forward_open_reply(True, 0, cid)", "spec.msgrouter.connected_reply(0x01, 0, spec.cip_codec.encode_string('STRING', prog))"]
    contract(
        id=f"logix.initialize.{_kind}", func="pycomm3.logix_driver.LogixDriver._initialize_driver",
        call="d._initialize_driver(init_tags=False, init_program_tags=False)",
        bind={"path": ["'10.0.0.1'", "'10.0.0.1/bp/3'", "'10.0.0.1/bp/1/enet/192.168.1.7/bp/0'"]},
        params={"session": P.int(1, 0xFFFFFFFF), "cid": P.bytes(len=4), "major": P.int(0, 255), "prog": P.str(maxcp=0x7F, maxlen=40)},
        setup=["d = pycomm3.logix_driver.LogixDriver(path)", "d._session = session", "d._connection_opened = True", f"pname = {_pname}",
               f"item = spec.identity.list_identity_item(1, b'\\x0a\\x00\\x00\\x01', {_ID}, 3)", f"li = {_LI}",
               "before = pycomm3.cip.data_types.PADDED_EPATH.encode(d._cfg['cip_path'], length=True, pad_length=True)",
               "hops = len(d._cfg['cip_path'])",
               "t = spec.env.Transport([" + ", ".join(_replies) + "])", "d._sock = t"],
        ensures=[f"d._micro800 == {_micro}", f"d._cfg['use_instance_ids'] == ({'False' if _micro else 'major >= 21'})",
                 "d._info['product_name'] == pname and d._info['revision'] == {'major': major, 'minor': 3}",
                 f"spec.env.frame_kinds(t.sent) == ['list-identity', 'ucmm'" + ("" if _micro else ", 'fo-large', 'connected'") + "]",
                 ("len(d._cfg['cip_path']) == max(hops - 1, 0)" if _micro else
                  "pycomm3.cip.data_types.PADDED_EPATH.encode(d._cfg['cip_path'], length=True, pad_length=True) == before"),
                 ("True" if _micro else "d._info['name'] == prog")],
        props=["C14", "C10", "C15"], max_paths=20000)
# LogixDriver.open(): initialisation runs exactly when the session was granted
for _granted in (True, False):
    contract(
        id=f"logix.open.{'granted' if _granted else 'refused'}", func="pycomm3.logix_driver.LogixDriver.open", call="d.open()",
        params={"session": P.int(1, 0xFFFFFFFF)},
        setup=["d = pycomm3.logix_driver.LogixDriver('10.0.0.1')", "inits = []", "d._initialize_driver = lambda **kw: inits.append(kw)",
               f"t = spec.env.Transport([spec.env.register_reply(session, {0 if _granted else 1})])", "pycomm3.cip_driver.Socket = lambda timeout: t"],
        ensures=[f"result == {_granted}", f"inits == {[{'init_tags': True, 'init_program_tags': True}] if _granted else []}",
                 "d.connected == True", "spec.env.frame_kinds(t.sent) == ['register']"],
        props=["C10", "C14"])

# frame: what get_plc_info returns is what the controller answered THIS time (status / keyswitch change between two polls)
contract(
    id="plc_info.fresh", func="pycomm3.logix_driver.LogixDriver.get_plc_info", call="d.get_plc_info()",
    params=dict(SC, major=P.int(0, 255), minor=P.int(0, 255), status=P.bytes(len=2), serial=P.int(0, 2**32 - 1), name=P.str(maxlen=40, maxcp=0x7F),
                status1=P.const("b'\\x60\\x30'"), name1=P.const("'1756-L83E/B'")),
    setup=LD + ["t = spec.env.Transport([spec.msgrouter.unconnected_reply(0x01, 0, spec.identity.identity_bytes(1, 14, 55, 3, 1, status1, 7, name1)), "
                "spec.msgrouter.unconnected_reply(0x01, 0, spec.identity.identity_bytes(1, 14, 56, major, minor, status, serial, name))])", "d._sock = t",
                "earlier = d.get_plc_info()", "d._info = earlier",
                "expect = spec.identity.identity_view(1, 14, 56, major, minor, status, serial, name)"],
    ensures=["all(result[k] == expect[k] for k in expect)", "len(t.sent) == 2"], props=["C14", "C16"])

# a refused typed request: the Tag carries the target's status text (the reply data, if any, is not decoded into a value)
contract(
    id="generic.typed.refused", func="pycomm3.cip_driver.CIPDriver.generic_message",
    call="d.generic_message(service=0x0e, class_code=1, instance=1, attribute=1, data_type=dtype, name='x')",
    bind={"path": ["'10.0.0.1'"], "dtype": ["pycomm3.cip.data_types.UINT", "pycomm3.cip.data_types.STRING"], "status": ["5", "8", "0x16"]},
    params={"session": P.int(1, 0xFFFFFFFF), "cid": P.bytes(len=4), "junk": P.bytes(maxlen=4)},
    setup=DRV + ["t = spec.env.Transport([spec.msgrouter.connected_reply(0x0e, status, junk)])", "d._sock = t"],
    ensures=["not bool(result)", "result.value is None", "spec.encap.names_status(result.error, status)"], props=["C14", "C13"])
