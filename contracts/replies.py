"""C13 -- replies are classified by their status words; bad replies cannot pass or crash.
`raw` is an arbitrary byte string of any length (or None)."""
from pyvc.api import contract, P

PK = "pycomm3.packets."
RAW = P.oneof(P.bytes(), P.const("None"))
NOFAIL = ["implies(not bool(result), isinstance(result.error, str) and len(result.error) > 0)",
          "implies(bool(result), result.error is None)"]

def _svc_codes():
    import logging
    logging.disable(logging.CRITICAL)
    from pycomm3.cip.services import Services
    codes = sorted({v[0] for k, v in vars(Services).items() if isinstance(v, bytes) and len(v) == 1})
    return codes + [0x7F, 0x00]          # plus two codes no table knows


SVC = [str(c | 0x80) for c in _svc_codes()] + ["0x10"]      # 0x10: a service byte without the reply bit
for _kind, _off, _spec in (("sendunitdata", 46, "connected_success"), ("sendrrdata", 40, "unconnected_success")):
    _cls = {"sendunitdata": "SendUnitDataResponsePacket", "sendrrdata": "SendRRDataResponsePacket"}[_kind]
    contract(
        id=f"reply.{_kind}.short", func=PK + "base.ResponsePacket.__init__", call=f"{PK}{_cls}(None, raw)",
        params={"raw": P.oneof(P.bytes(maxlen=_off), P.const("None"))},
        ensures=[f"bool(result) == spec.encap.{_spec}(raw)", "not bool(result)"] + NOFAIL, props=["C13"])
    # classification by the two status words, for every reply service code the tables know (and two they do not),
    # every general status, every encapsulation status, every length
    contract(
        id=f"reply.{_kind}.classify", func=PK + "base.ResponsePacket.__init__", call=f"{PK}{_cls}(None, raw)",
        bind={"svc": SVC}, params={"head": P.bytes(len=_off), "tail": P.bytes()},
        setup=["raw = head + bytes([svc]) + tail"],
        ensures=[f"bool(result) == spec.encap.{_spec}(raw)"], props=["C13"])
    # error text of a failed service: names the status (table text or hex code), never raises, never empty;
    # every general status 1..255 x extended-status sizes 0..3 words x every extended value
    contract(
        id=f"reply.{_kind}.errortext", func=PK + "base.ResponsePacket.error", call=f"{PK}{_cls}(None, raw).error",
        bind={"status": [str(i) for i in range(1, 256)]},
        params={"head": P.bytes(len=_off), "ext": P.oneof(P.const("b''"), P.const("b'\\x00'"),
                                                         P.concat(P.const("b'\\x01'"), P.bytes(len=2), P.bytes()),
                                                         P.concat(P.const("b'\\x02'"), P.bytes(len=4), P.bytes()),
                                                         P.concat(P.const("b'\\x03'"), P.bytes()),
                                                         P.concat(P.const("b'\\x01'"), P.bytes(maxlen=1)))},
        requires=["spec.encap.le(head, 8, 4) == 0"],
        setup=["raw = head + b'\\xcc\\x00' + bytes([status]) + ext"],
        ensures=["isinstance(result, str) and len(result) > 0",
                 "spec.encap.names_status(result, status)",
                 "spec.encap.names_extended(result, status, spec.encap.extended_value(ext)) "
                 "if spec.encap.extended_value(ext) is not None else True"],
        props=["C13"])
    contract(
        id=f"reply.{_kind}.encap_error", func=PK + "base.ResponsePacket.error", call=f"{PK}{_cls}(None, raw).error",
        params={"head": P.bytes(len=24), "rest": P.oneof(P.bytes(maxlen=_off - 24),
                                                        P.concat(P.bytes(len=_off - 24), P.const("b'\\xcc\\x00\\x00\\x00'"), P.bytes()),
                                                        P.concat(P.bytes(len=_off - 24), P.const("b'\\xcc\\x00\\x05\\x01\\x07\\x00'")))},
        requires=["spec.encap.le(head, 8, 4) != 0"], setup=["raw = head + rest"],
        ensures=["isinstance(result, str) and len(result) > 0"], props=["C13"])

contract(
    id="reply.base", func=PK + "base.ResponsePacket.__init__", call=PK + "ResponsePacket(None, raw)",
    params={"raw": RAW},
    ensures=["bool(result) == (spec.encap.encap_status(raw) == 0)"] + NOFAIL, props=["C13"])
contract(
    id="reply.register", func=PK + "base.ResponsePacket.__init__", call=PK + "RegisterSessionResponsePacket(None, raw)",
    params={"raw": RAW},
    ensures=["bool(result) == (spec.encap.encap_status(raw) == 0)",
             "result.session == spec.encap.le(raw, 4, 4) if bool(result) else True"] + NOFAIL, props=["C13", "C10"])

# ---- derived response classes: whatever the bytes, only library exceptions, and never a success unless both status
#      words say so
TAGINFO = "{'tag_type': 'atomic', 'data_type': 'DINT', 'data_type_name': 'DINT', 'instance_id': 7, 'type_class': pycomm3.cip.data_types.DINT}"
REQS = {
    "generic_connected_raw": f"{PK}GenericConnectedRequestPacket(5, b'\\x01', 1, 1)",
    "generic_connected_typed": f"{PK}GenericConnectedRequestPacket(5, b'\\x01', 1, 1, data_type=pycomm3.cip.data_types.UINT)",
    "generic_unconnected_raw": f"{PK}GenericUnconnectedRequestPacket(b'\\x01', 1, 1)",
    "generic_unconnected_typed": f"{PK}GenericUnconnectedRequestPacket(b'\\x01', 1, 1, data_type=pycomm3.cip.data_types.STRING)",
    "read": f"{PK}ReadTagRequestPacket(5, 'tag1', 1, {TAGINFO}, 0, True)",
    "read_fragmented": f"{PK}ReadTagFragmentedRequestPacket(5, 'tag1', 1, {TAGINFO}, 0, True, 0)",
    "write": f"{PK}WriteTagRequestPacket(5, 'tag1', 1, {TAGINFO}, 0, True, b'\\x01\\x00\\x00\\x00')",
    "rmw": f"{PK}ReadModifyWriteRequestPacket(5, 'tag1', {TAGINFO}, 0, True)",
    "list_identity": f"{PK}ListIdentityRequestPacket()",
}
for _name, _req in REQS.items():
    _unconn = "unconnected" in _name
    _ok = "spec.encap.unconnected_success(raw)" if _unconn else "spec.encap.connected_success(raw)"
    if _name == "list_identity":
        _ok = "spec.encap.encap_status(raw) == 0"
    _off = 40 if _unconn else 46
    contract(
        id=f"reply.class.{_name}.short", func=PK + "base.ResponsePacket.__init__", call="req.response_class(req, raw)",
        params={"raw": P.oneof(P.bytes(maxlen=_off), P.const("None"))}, setup=[f"req = {_req}"],
        ensures=[f"({_ok}) if bool(result) else True"] + NOFAIL,
        raises_only=["pycomm3.exceptions.PycommError"], props=["C13"])
    if _name != "list_identity":
        contract(
            id=f"reply.class.{_name}", func=PK + "base.ResponsePacket.__init__", call="req.response_class(req, raw)",
            bind={"svc": ["0xcc", "0xd2", "0x8a", "0x81", "0xff", "0x10"], "status": ["0", "6", "5"]},
            params={"head": P.bytes(len=_off), "ext": P.oneof(P.const("b''"), P.const("b'\\x00'"), P.const("b'\\x01\\x05\\x21'")),
                    "data": P.bytes()},
            setup=[f"req = {_req}", "raw = head + bytes([svc, 0, status]) + ext + data"],
            ensures=[f"({_ok}) if bool(result) else True"],
            raises_only=["pycomm3.exceptions.PycommError"], props=["C13"], max_paths=30000)

# ---- multiple service packet replies
MULTI_REQ = (f"{PK}MultiServiceRequestPacket(5, [{REQS['read']}, {REQS['write']}])")
contract(
    id="reply.multi.any", func=PK + "logix.MultiServiceResponsePacket._parse_reply", call="req.response_class(req, raw)",
    bind={"status": ["0", "6", "5"]},
    params={"head": P.bytes(len=46), "data": P.bytes(maxlen=8)},
    setup=[f"req = {PK}MultiServiceRequestPacket(5, [spec.env.EchoRequest(), spec.env.EchoRequest(), spec.env.EchoRequest()])",
           "raw = head + bytes([0x8a, 0, status, 0]) + data"],
    ensures=["spec.encap.connected_success(raw) if bool(result) else True", "len(result.responses) <= 3"],
    raises_only=["pycomm3.exceptions.PycommError"], props=["C13", "C03"], max_paths=30000,
    note="embedded replies replaced by recorders (their parsing is under reply.class.*); reply data bounded to 8 bytes, all contents")
contract(
    id="reply.multi.none", func=PK + "base.ResponsePacket.__init__", call="req.response_class(req, raw)",
    params={"raw": P.oneof(P.const("None"), P.bytes(maxlen=50))}, setup=[f"req = {MULTI_REQ}"],
    ensures=["spec.encap.connected_success(raw) if bool(result) else True"],
    raises_only=["pycomm3.exceptions.PycommError"], props=["C13", "C03"])
# demultiplexing: the i-th embedded reply goes to the i-th request, whatever its status
contract(
    id="reply.multi.demux", func=PK + "logix.MultiServiceResponsePacket._parse_reply", call="req.response_class(req, raw)",
    bind={"s1": ["0", "5"], "s2": ["0", "4"]},
    params={"head": P.bytes(len=46), "d1": P.bytes(maxlen=40), "d2": P.bytes(maxlen=40)},
    requires=["spec.encap.le(head, 8, 4) == 0"],
    setup=[f"req = {MULTI_REQ}", "r1 = bytes([0xcc, 0, s1, 0]) + d1", "r2 = bytes([0xcd, 0, s2, 0]) + d2",
           "raw = spec.logix.multi_reply(head, [r1, r2])"],
    ensures=["len(result.responses) == 2", "result.responses[0].raw == bytes(46) + r1", "result.responses[1].raw == bytes(46) + r2",
             "result.responses[0].request is req.requests[0]", "result.responses[1].request is req.requests[1]",
             "bool(result)", "bool(result.responses[1]) == (s2 == 0)", "implies(s1 != 0, not bool(result.responses[0]))"],
    props=["C13", "C03", "C01"], max_paths=30000)
