"""C10 -- connection lifecycle is safe under any call history and failure point.

The all-histories quantifier is discharged by typestate contracts: every public operation is proved, from EVERY state
satisfying the driver invariant, under every target policy and with a transport fault injected at any call index
(symbolic `fail_at`: each send / receive forks into "fails here" and "does not"), to re-establish the invariant and
the post-state the next operation's contract starts from."""
from pyvc.api import contract, P

D = "pycomm3.cip_driver.CIPDriver"
LIB = ["pycomm3.exceptions.PycommError"]
FAULT = P.oneof(P.const("None"), P.int(0, 12))
SETUP = ["d = pycomm3.cip_driver.CIPDriver('10.0.0.1/bp/2')", "t = spec.env.Transport(replies, fail_at)",
         "pycomm3.cip_driver.Socket = lambda timeout: t"]
CLOSED = "(not d._connection_opened and d._session == 0 and not d._target_is_connected and d._sock is None and not d.connected)"

# ---- open: socket, session registration
contract(
    id="lifecycle.open", func=D + ".open", call="d.open()",
    bind={"granted": ["True", "False"]}, params={"session": P.int(1, 0xFFFFFFFF), "fail_at": FAULT},
    setup=["replies = [spec.env.register_reply(session, 0 if granted else 1)]"] + SETUP,
    ensures=["result == granted", "d._session == (session if granted else 0)", "d._connection_opened", "not d._target_is_connected",
             "spec.env.frame_kinds(t.sent) == ['register']", "spec.encap.try_parse_frame(t.sent[0])[1] == 0"],
    raises_only=["pycomm3.exceptions.CommError"], ensures_exc=["fail_at is not None", "not d._target_is_connected", "d._session == 0",
                                                                 "'connected' not in spec.env.frame_kinds(t.sent)"],
    props=["C10", "C11"])
contract(
    id="lifecycle.open.again", func=D + ".open", call="d.open()", params={"session": P.int(1, 0xFFFFFFFF)},
    setup=["replies = []", "fail_at = None"] + SETUP + ["d._sock = t", "d._connection_opened = True", "d._session = session"],
    ensures=["result == True", "t.sent == []", "d._session == session"], props=["C10"])

# ---- a connected operation from "session registered, no connection": large Forward Open, then standard with 500
OPENED = SETUP + ["d._sock = t", "d._connection_opened = True", "d._session = session",
                  "route_before = pycomm3.cip.data_types.PADDED_EPATH.encode(d._cfg['cip_path'], length=True, pad_length=True)",
                  "fo_path = spec.epath.route_bytes_with_router([(1, b'\\x02')])"]
for _policy, _replies, _kinds in (
        ("large_ok", "[spec.env.forward_open_reply(True, 0, cid), spec.msgrouter.connected_reply(0x0e, 0, b'ok')]", "['fo-large', 'connected']"),
        ("large_refused", "[spec.env.forward_open_reply(True, 1), spec.env.forward_open_reply(False, 0, cid), spec.msgrouter.connected_reply(0x0e, 0, b'ok')]",
         "['fo-large', 'fo-standard', 'connected']"),
        ("all_refused", "[spec.env.forward_open_reply(True, 1), spec.env.forward_open_reply(False, 1)]", "['fo-large', 'fo-standard']")):
    contract(
        id=f"lifecycle.connected_op.{_policy}", func="pycomm3.cip_driver.CIPDriver.generic_message",
        call="d.generic_message(service=0x0e, class_code=1, instance=1, attribute=1, connected=True)",
        params={"session": P.int(1, 0xFFFFFFFF), "fail_at": FAULT, "cid": P.bytes(len=4)}, setup=[f"replies = {_replies}"] + OPENED,
        ensures=[f"spec.env.frame_kinds(t.sent) == {_kinds}", "d._target_is_connected",
                 "result.value == b'ok'", f"d.connection_size == {4000 if _policy == 'large_ok' else 500}",
                 "all(spec.encap.try_parse_frame(f)[1] == session for f in t.sent)",
                 "spec.encap.try_parse_frame(t.sent[-1])[3][1] == cid",      # every connection id the target may grant, 0 included
                 # the size the target enforces (asked for in the accepted Forward Open) is the size the driver plans with
                 "spec.env.forward_open_size(t.sent[-2]) == d.connection_size",
                 # every Forward Open carries the driver's route followed by the message router -- the first, the fall-back one, any later one
                 "all(spec.env.forward_open_path(f) == fo_path for f in t.sent[:-1])",
                 "pycomm3.cip.data_types.PADDED_EPATH.encode(d._cfg['cip_path'], length=True, pad_length=True) == route_before"],
        raises_only=LIB,
        ensures_exc=[("fail_at is not None" if _policy != "all_refused" else "True"),
                     "implies('connected' in spec.env.frame_kinds(t.sent), d._target_is_connected)",
                     f"spec.env.frame_kinds(t.sent) == {_kinds}[:len(t.sent)]"],
        props=["C10", "C04", "C11"], max_paths=20000)
# the same from "already fell back to the standard Forward Open" (a second call after a refused large one)
for _policy, _replies, _kinds in (
        ("ok", "[spec.env.forward_open_reply(False, 0), spec.msgrouter.connected_reply(0x0e, 0, b'ok')]", "['fo-standard', 'connected']"),
        ("refused", "[spec.env.forward_open_reply(False, 1)]", "['fo-standard']")):
    contract(
        id=f"lifecycle.connected_op.fell_back.{_policy}", func="pycomm3.cip_driver.CIPDriver.generic_message",
        call="d.generic_message(service=0x0e, class_code=1, instance=1, attribute=1, connected=True)",
        params={"session": P.int(1, 0xFFFFFFFF), "fail_at": FAULT},
        setup=[f"replies = {_replies}"] + OPENED + ["d._cfg['extended forward open'] = False", "d._cfg['connection_size'] = 500"],
        ensures=[f"spec.env.frame_kinds(t.sent) == {_kinds}", "d._target_is_connected", "result.value == b'ok'", "d.connection_size == 500",
                 "spec.env.forward_open_size(t.sent[0]) == 500", f"{_policy == 'ok'}"],
        raises_only=LIB,
        ensures_exc=[("fail_at is not None" if _policy == "ok" else "True"),
                     "'connected' not in spec.env.frame_kinds(t.sent) or d._target_is_connected",
                     f"spec.env.frame_kinds(t.sent) == {_kinds}[:len(t.sent)]"],
        props=["C10", "C04", "C11"], max_paths=20000)
# no session: nothing at all is sent
contract(
    id="lifecycle.connected_op.no_session", func="pycomm3.cip_driver.CIPDriver.generic_message",
    call="d.generic_message(service=0x0e, class_code=1, instance=1, attribute=1, connected=True)",
    params={}, setup=["replies = []", "fail_at = None"] + SETUP + ["d._sock = t", "d._connection_opened = True"],
    ensures=["False"], raises_only=LIB, ensures_exc=["t.sent == []", "not d._target_is_connected"], props=["C10"])

SOCK_CLOSED = "(t.closed or 'd._sock = t' not in _init_lines)"
# ---- close from every state of the invariant, any fault: always ends closed; without fault the target is told
for _state, _init, _kinds in (
        ("connected", ["d._sock = t", "d._connection_opened = True", "d._session = session", "d._target_is_connected = True",
                       "d._target_cid = b'\\x11\\x22\\x33\\x44'"], "['fclose', 'unregister']"),
        ("session_only", ["d._sock = t", "d._connection_opened = True", "d._session = session"], "['unregister']"),
        ("socket_only", ["d._sock = t", "d._connection_opened = True"], "[]"),
        ("fresh", [], "[]")):
    contract(
        id=f"lifecycle.close.{_state}", func=D + ".close", call="d.close()",
        bind={"fc_status": ["0", "1"]}, params={"session": P.int(1, 0xFFFFFFFF), "fail_at": FAULT},
        setup=["replies = [spec.env.forward_close_reply(fc_status)]", f"_init_lines = {_init!r}"] + SETUP + _init,
        ensures=[CLOSED, f"spec.env.frame_kinds(t.sent) == {_kinds}", "all(spec.encap.try_parse_frame(f)[1] == session for f in t.sent)",
                 SOCK_CLOSED],
        # whatever failed on the way, the TCP link itself is closed: a reachable target then drops session and connection
        raises_only=["pycomm3.exceptions.CommError"], ensures_exc=[CLOSED, "fail_at is not None", SOCK_CLOSED],
        props=["C10", "C11"], max_paths=20000)     # C11: the session handle is zero again after close, so a re-open registers anew

# ---- context manager: __exit__ always closes and never swallows the body's exception
for _exc in ("None", "ValueError"):
    contract(
        id=f"lifecycle.exit.{_exc}", func=D + ".__exit__", call=f"d.__exit__({_exc}, {_exc + '()' if _exc != 'None' else 'None'}, None)",
        params={"session": P.int(1, 0xFFFFFFFF), "fail_at": FAULT},
        setup=["replies = [spec.env.forward_close_reply(0)]"] + SETUP +
              ["d._sock = t", "d._connection_opened = True", "d._session = session", "d._target_is_connected = True"],
        ensures=[CLOSED, f"result == {_exc == 'None'} or fail_at is not None", "implies(result == True, " + str(_exc == "None") + ")"],
        props=["C10"], max_paths=20000)
contract(
    id="lifecycle.enter", func=D + ".__enter__", call="d.__enter__()", params={"session": P.int(1, 0xFFFFFFFF), "fail_at": FAULT},
    setup=["replies = [spec.env.register_reply(session, 0)]"] + SETUP,
    ensures=["result is d", "d._session == session"], raises_only=["pycomm3.exceptions.CommError"], ensures_exc=["fail_at is not None"],
    props=["C10"])

# an unconnected request on a driver that holds no socket (never opened / closed again): a library exception, nothing else
for _state, _init in (("fresh", []), ("closed", ["d._sock = t", "d._connection_opened = True", "d._session = 9", "closed = d.close()"])):
    contract(
        id=f"lifecycle.unconnected_op.no_socket.{_state}", func="pycomm3.cip_driver.CIPDriver.generic_message",
        call="d.generic_message(service=0x0e, class_code=1, instance=1, attribute=1, connected=False)",
        params={}, setup=["replies = [b'']", "fail_at = None"] + SETUP + _init + ["before = len(t.sent)"],
        ensures=["not bool(result)"], raises_only=LIB, ensures_exc=["len(t.sent) == before"], props=["C10"])

# re-open after a fall-back and a close: the standard Forward Open still asks for the size the driver then plans with
contract(
    id="lifecycle.reopen.fell_back", func="pycomm3.cip_driver.CIPDriver.generic_message",
    call="d.generic_message(service=0x0e, class_code=1, instance=1, attribute=1, connected=True)",
    params={"session": P.int(1, 0xFFFFFFFF), "session2": P.int(1, 0xFFFFFFFF), "cid": P.bytes(len=4), "cid2": P.bytes(len=4)},
    setup=["replies = [spec.env.register_reply(session), spec.env.forward_open_reply(True, 1), spec.env.forward_open_reply(False, 0, cid), "
           "spec.msgrouter.connected_reply(0x0e, 0, b'one'), spec.env.forward_close_reply(0), "
           "spec.env.register_reply(session2), spec.env.forward_open_reply(False, 0, cid2), spec.msgrouter.connected_reply(0x0e, 0, b'two')]",
           "fail_at = None"] + SETUP +
          ["opened = d.open()", "first = d.generic_message(service=0x0e, class_code=1, instance=1, attribute=1, connected=True)", "closed = d.close()",
           "reopened = d.open()", "mark = len(t.sent)"],
    ensures=["result.value == b'two'", "first.value == b'one'",
             "spec.env.frame_kinds(t.sent) == ['register', 'fo-large', 'fo-standard', 'connected', 'fclose', 'unregister', 'register', 'fo-standard', 'connected']",
             "spec.env.forward_open_size(t.sent[7]) == d.connection_size", "d.connection_size == 500",
             "spec.env.forward_open_path(t.sent[7]) == spec.env.forward_open_path(t.sent[2])",
             "spec.encap.try_parse_frame(t.sent[8])[3][1] == cid2 and spec.encap.try_parse_frame(t.sent[8])[1] == session2"],
    props=["C10", "C04", "C11", "C15"], max_paths=20000)

# a redundant open() on a connected driver changes nothing the target knows the connection by: the Forward Close that ends it
# names the same connection serial / vendor / originator serial as the Forward Open that made it
contract(
    id="lifecycle.open_again.connected", func=D + ".close", call="d.close()",
    params={"session": P.int(1, 0xFFFFFFFF), "cid": P.bytes(len=4)},
    setup=["replies = [spec.env.register_reply(session), spec.env.forward_open_reply(True, 0, cid), spec.msgrouter.connected_reply(0x0e, 0, b'ok'), "
           "spec.env.forward_close_reply(0)]", "fail_at = None"] + SETUP +
          ["opened = d.open()", "first = d.generic_message(service=0x0e, class_code=1, instance=1, attribute=1, connected=True)", "again = d.open()"],
    ensures=["again == True", "spec.env.frame_kinds(t.sent) == ['register', 'fo-large', 'connected', 'fclose', 'unregister']",
             "spec.env.connection_triad(t.sent[3]) == spec.env.connection_triad(t.sent[1])", "spec.env.connection_triad(t.sent[1]) is not None", CLOSED],
    props=["C10"], max_paths=20000)
