"""C16 -- device identities decode faithfully."""
from pyvc.api import contract, P

CT = "pycomm3.custom_types."
F = {"vendor": P.int(0, 65535), "product_type": P.int(0, 65535), "product_code": P.int(0, 65535),
     "major": P.int(0, 255), "minor": P.int(0, 255), "status": P.bytes(len=2), "serial": P.int(0, 2**32 - 1),
     "name": P.str(maxlen=255, maxcp=0xFF)}
ARGS = "vendor, product_type, product_code, major, minor, status, serial, name"

contract(
    id="identity.module.decode", func="pycomm3.cip.data_types.DataType.decode", call=CT + "ModuleIdentityObject.decode(buffer)",
    params=dict(F, rest=P.bytes()),
    setup=[f"buffer = io.BytesIO(spec.identity.identity_bytes({ARGS}) + rest)"],
    ensures=[f"result == spec.identity.identity_view({ARGS})", "buffer.read() == rest"],
    props=["C16", "C06"])
contract(
    id="identity.list.decode", func="pycomm3.cip.data_types.DataType.decode", call=CT + "ListIdentityObject.decode(buffer)",
    params=dict(F, version=P.int(0, 65535), ip=P.bytes(len=4), state=P.int(0, 255), rest=P.bytes()),
    setup=[f"buffer = io.BytesIO(spec.identity.list_identity_item(version, ip, spec.identity.identity_bytes({ARGS}), state) + rest)"],
    ensures=[f"result == dict(spec.identity.identity_view({ARGS}), encap_protocol_version=version, "
             "ip_address=spec.identity.dotted(ip), state=state)", "buffer.read() == rest"],
    props=["C16"])
contract(
    id="identity.list.reply", func="pycomm3.packets.ethernetip.ListIdentityResponsePacket._parse_reply",
    call="pycomm3.packets.ListIdentityResponsePacket(None, raw)",
    params=dict(F, version=P.int(0, 65535), ip=P.bytes(len=4), state=P.int(0, 255), head=P.bytes(len=24)),
    requires=["spec.encap.le(head, 8, 4) == 0"],
    setup=[f"raw = head + b'\\x01\\x00' + spec.identity.list_identity_item(version, ip, spec.identity.identity_bytes({ARGS}), state)"],
    ensures=[f"result.identity == dict(spec.identity.identity_view({ARGS}), encap_protocol_version=version, "
             "ip_address=spec.identity.dotted(ip), state=state)", "bool(result)"],
    props=["C16"])
# dict -> bytes -> dict
contract(
    id="identity.module.roundtrip", func="pycomm3.cip.data_types.DataType.encode",
    call=CT + "ModuleIdentityObject.decode(" + CT + "ModuleIdentityObject.encode(d))",
    params={"vendor": P.oneof(P.const("'Rockwell Automation/Allen-Bradley'"), P.const("'ODVA'"), P.const("'Littelfuse'")),
            "product_type": P.oneof(P.const("'Programmable Logic Controller'"), P.const("'Generic Device (deprecated)'"),
                                    P.const("'Communications Adapter'")),
            "product_code": P.int(0, 65535), "major": P.int(0, 255), "minor": P.int(0, 255), "status": P.bytes(len=2),
            "serial": P.oneof(P.const("'00000000'"), P.const("'deadbeef'"), P.const("'0012ab9f'")), "name": P.str(maxlen=255, maxcp=0xFF)},
    setup=["d = {'vendor': vendor, 'product_type': product_type, 'product_code': product_code, "
           "'revision': {'major': major, 'minor': minor}, 'status': status, 'serial': serial, 'product_name': name}"],
    ensures=["result == d"], props=["C16", "C06"])

# discover: every device that answers the broadcast is reported, whatever the length of its product name
# (the reply of a device with an empty name is exactly 64 bytes)
_ITEM = "spec.identity.list_identity_item(version, ip, spec.identity.identity_bytes({a}), state)"
contract(
    id="identity.discover.broadcast", func="pycomm3.cip_driver.CIPDriver._broadcast_discover",
    call="pycomm3.cip_driver.CIPDriver._broadcast_discover(None, b'hello', pycomm3.packets.ListIdentityRequestPacket())",
    params=dict(F, version=P.int(0, 65535), ip=P.bytes(len=4), state=P.int(0, 255), head=P.bytes(len=24), name2=P.str(maxlen=255, maxcp=0xFF)),
    requires=["spec.encap.le(head, 8, 4) == 0"],
    setup=["raw1 = head + b'\\x01\\x00' + " + _ITEM.format(a=ARGS), "raw2 = head + b'\\x01\\x00' + " + _ITEM.format(a=ARGS.replace("name", "name2")),
           "udp = spec.env.UdpSocket([raw1, raw2])", "pycomm3.cip_driver.socket = spec.env.SocketModule(udp)"],
    ensures=["len(result) == 2", f"result[0] == dict(spec.identity.identity_view({ARGS}), encap_protocol_version=version, "
             "ip_address=spec.identity.dotted(ip), state=state)", "result[1]['product_name'] == name2",
             "udp.sent == [(b'hello', ('255.255.255.255', 44818))]"],
    props=["C16"], max_paths=20000)
# the public entry point: one broadcast per local IPv4 address (bound to it), every answer reported once per broadcast
contract(
    id="identity.discover", func="pycomm3.cip_driver.CIPDriver.discover", call="pycomm3.cip_driver.CIPDriver.discover()",
    bind={"addresses": ["['192.168.1.5']", "[]"]},
    params=dict(F, version=P.int(0, 65535), ip=P.bytes(len=4), state=P.int(0, 255), head=P.bytes(len=24)),
    requires=["spec.encap.le(head, 8, 4) == 0"],
    setup=["raw1 = head + b'\\x01\\x00' + " + _ITEM.format(a=ARGS), "udp = spec.env.UdpSocket([raw1])",
           "pycomm3.cip_driver.socket = spec.env.SocketModule(udp, addresses)"],
    ensures=["len(result) == 1", f"result[0] == dict(spec.identity.identity_view({ARGS}), encap_protocol_version=version, "
             "ip_address=spec.identity.dotted(ip), state=state)",
             "len(udp.sent) == 1 and udp.sent[0][1] == ('255.255.255.255', 44818)",
             "spec.encap.try_parse_frame(udp.sent[0][0]) == (0x63, 0, bytes(8), ('empty',))",
             "udp.bound == (('192.168.1.5', 0) if addresses else None)"],
    props=["C16", "C11"], max_paths=20000)
# CIPDriver.list_identity(path): its own session -- register, ListIdentity, unregister -- and the identity that came back
contract(
    id="identity.list_identity.classmethod", func="pycomm3.cip_driver.CIPDriver.list_identity", call="pycomm3.cip_driver.CIPDriver.list_identity('10.0.0.9')",
    params=dict(F, version=P.int(0, 65535), ip=P.bytes(len=4), state=P.int(0, 255), session=P.int(1, 0xFFFFFFFF)),
    setup=["item = " + _ITEM.format(a=ARGS),
           "t = spec.env.Transport([spec.env.register_reply(session), b'\\x63\\x00' + spec.cip_codec.le_uint(2 + len(item), 2) + bytes(20) + b'\\x01\\x00' + item])",
           "pycomm3.cip_driver.Socket = lambda timeout: t"],
    ensures=[f"result == dict(spec.identity.identity_view({ARGS}), encap_protocol_version=version, ip_address=spec.identity.dotted(ip), state=state)",
             "spec.env.frame_kinds(t.sent) == ['register', 'list-identity', 'unregister']",
             "spec.encap.try_parse_frame(t.sent[1])[1] == session and spec.encap.try_parse_frame(t.sent[2])[1] == session"],
    props=["C16", "C10"], max_paths=20000)
