"""C17 -- connected messages carry fresh sequence counts."""
from pyvc.api import contract, lemma, P

GEN_SETUP = ["g = pycomm3.util.cycle(stop, start)", "first = next(g)", "spec.seq.at_state(g, v, first)"]
DRV_SETUP = ["g = pycomm3.util.cycle(65535, 1)", "first = next(g)", "spec.seq.at_state(g, v, first)"]

# the generator as a state machine: base case and inductive step, for every (stop, start) and every position
contract(
    id="cycle.first", func="pycomm3.util.cycle", call="next(pycomm3.util.cycle(stop, start))",
    params={"stop": P.int(-70000, 70000), "start": P.int(-70000, 70000)}, requires=["start <= stop"],
    setup=["g0 = pycomm3.util.cycle(stop, start)"], ensures=["result == start"], no_entry_check=True, callsite=False, props=["C17"])
contract(
    id="cycle.first.state", func="pycomm3.util.cycle", call="next(g0)",
    params={"stop": P.int(-70000, 70000), "start": P.int(-70000, 70000)}, requires=["start <= stop"],
    setup=["g0 = pycomm3.util.cycle(stop, start)"], ensures=["result == start", "spec.seq.gen_val(g0) == start"],
    no_entry_check=True, callsite=False, props=["C17"])
contract(
    id="cycle.step", func="pycomm3.util.cycle", call="next(g)",
    params={"stop": P.int(-70000, 70000), "start": P.int(-70000, 70000), "v": P.int()},
    requires=["start <= stop", "start <= v", "v <= stop", "stop - start <= 66000"], setup=GEN_SETUP,
    ref="spec.seq.successor(v, start, stop)", compare=["result"],
    ensures=["start <= result", "result <= stop", "implies(start < stop, result != v)",
             "spec.seq.gen_val(g) == result"],     # the state invariant the induction rests on: the frame holds the value just drawn
    no_entry_check=True, callsite=False, props=["C17"])

# the driver's counter: 1..65535, so every count is a non-zero UINT
contract(
    id="cipdriver.counter", func="pycomm3.cip_driver.CIPDriver.__init__", call="pycomm3.cip_driver.CIPDriver('10.0.0.1')",
    ensures=["spec.seq.gen_args(result._sequence) == (65535, 1)"], props=["C17"])

# window lemma over the reference state machine (N = 65535): closed form is inductive, and any two draws fewer than N apart differ
lemma(
    id="seq.closed_form.step", params={"v": P.int(1, 65535), "k": P.int(0, None)},
    ensures=["spec.seq.successor(spec.seq.nth_after(v, k, 1, 65535), 1, 65535) == spec.seq.nth_after(v, k + 1, 1, 65535)",
             "spec.seq.nth_after(v, 0, 1, 65535) == v"], props=["C17"])
lemma(
    id="seq.window", params={"v": P.int(1, 65535), "k": P.int(1, 65534)},
    ensures=["spec.seq.nth_after(v, k, 1, 65535) != v",
             "1 <= spec.seq.nth_after(v, k, 1, 65535)", "spec.seq.nth_after(v, k, 1, 65535) <= 65535"], props=["C17"])

# freshness: every constructor of a connected packet takes exactly one draw and stores that count
PK = "pycomm3.packets."
contract(
    id="sendunitdata.init.draw", func=PK + "ethernetip.SendUnitDataRequestPacket.__init__",
    call=PK + "SendUnitDataRequestPacket(g)", params={"v": P.int(1, 65535)}, setup=DRV_SETUP,
    ensures=["result._sequence == spec.seq.successor(v, 1, 65535)",
             "next(g) == spec.seq.successor(spec.seq.successor(v, 1, 65535), 1, 65535)"], props=["C17"])
contract(
    id="sendunitdata.init.int", func=PK + "ethernetip.SendUnitDataRequestPacket.__init__",
    call=PK + "SendUnitDataRequestPacket(n)", params={"n": P.int(0, 65535)},
    ensures=["result._sequence == n"], props=["C17"])
contract(
    id="sendunitdata.count_first", func=PK + "ethernetip.SendUnitDataRequestPacket._setup_message",
    call="r.build_message()", params={"n": P.int(0, 65535), "extra": P.bytes()},
    setup=["r = " + PK + "SendUnitDataRequestPacket(n)", "r.add(extra)"],
    ensures=["result == spec.cip_codec.le_uint(n, 2) + extra"], props=["C17", "C11"])

TAGINFO = "{'tag_type': 'atomic', 'data_type': 'DINT', 'data_type_name': 'DINT', 'instance_id': 7}"
for _kind, _mk in (("read", f"{PK}ReadTagRequestPacket(5, 'tag1', 1, {TAGINFO}, 0, True)"),
                   ("readfrag", f"{PK}ReadTagFragmentedRequestPacket(5, 'tag1', 1, {TAGINFO}, 0, True, 0)")):
    contract(
        id=f"readfrag.from_request.draw.{_kind}", func=PK + "logix.ReadTagFragmentedRequestPacket.from_request",
        call=PK + "ReadTagFragmentedRequestPacket.from_request(g, req, offset)",
        params={"v": P.int(1, 65535), "offset": P.int(0, 2**32 - 1)}, setup=DRV_SETUP + [f"req = {_mk}"],
        ensures=["result._sequence == spec.seq.successor(v, 1, 65535)", "result._sequence != req._sequence or v == 4",
                 "next(g) == spec.seq.successor(spec.seq.successor(v, 1, 65535), 1, 65535)",
                 "result.offset == offset", "result.tag == req.tag", "result.elements == req.elements",
                 "result.request_id == req.request_id"], props=["C17"])
contract(
    id="writefrag.from_request.draw", func=PK + "logix.WriteTagFragmentedRequestPacket.from_request",
    call=PK + "WriteTagFragmentedRequestPacket.from_request(g, req, offset, value)",
    params={"v": P.int(1, 65535), "offset": P.int(0, 2**32 - 1), "value": P.bytes(minlen=1)},
    setup=DRV_SETUP + [f"req = {PK}WriteTagRequestPacket(5, 'tag1', 1, {TAGINFO}, 0, True, b'abcd')"],
    ensures=["result._sequence == spec.seq.successor(v, 1, 65535)",
             "next(g) == spec.seq.successor(spec.seq.successor(v, 1, 65535), 1, 65535)",
             "result.offset == offset", "result.value == value", "result.request_id == req.request_id"], props=["C17"])


# ---- adjacency of the counts actually sent: BOUNDED stand-in (run-time monitor), never counted as proved
def _positions(tier):
    import spec.seqmon
    span = range(65500, 65536) if tier != "thorough" else range(65000, 65536)
    for name in spec.seqmon.SCENARIOS:
        for pos in list(span) + list(range(0, 12)):
            yield {"scenario": name, "position": pos}


contract(
    id="sequence.adjacent_on_the_wire", func="pycomm3.cip_driver.CIPDriver.send",
    call="spec.seqmon.adjacent_counts_differ(scenario, position)", ref="True",
    params={"scenario": P.str(), "position": P.int(0, 65535)}, enum=_positions, callsite=False, props=["C17"],
    bounded="whole-driver histories (which packet objects reach the socket, in which order) are not within reach of a per-function "
            "contract; six operation scenarios x every counter phase around the wrap are monitored on the real driver instead")

# open() on a driver that is already open leaves the running count alone: the connected message after it still differs from the one before
contract(
    id="sequence.open_again", func="pycomm3.cip_driver.CIPDriver.open", call="d.open()",
    bind={"before": ["1", "2", "3"]}, params={"session": P.int(1, 0xFFFFFFFF), "cid": P.bytes(len=4)},
    setup=["d = pycomm3.cip_driver.CIPDriver('10.0.0.1')", "t = spec.env.Transport([spec.msgrouter.connected_reply(0x0e, 0, b'ok')] * (before + 1))",
           "d._sock = t", "d._connection_opened = True", "d._session = session", "d._target_cid = cid", "d._target_is_connected = True",
           "msgs = [d.generic_message(service=0x0e, class_code=1, instance=1, attribute=1) for _ in range(before)]",
           "count = lambda k: spec.encap.try_parse_frame(t.sent[k])[3][2]"],
    ensures=["result == True", "bool(d.generic_message(service=0x0e, class_code=1, instance=1, attribute=1))",
             "len(t.sent) == before + 1", "count(before) != count(before - 1)",
             "count(before) == spec.seq.successor(count(before - 1), 1, 65535)"],
    props=["C17", "C10"])

# SLC data-log queue: n reads and the queue-clearing read are n + 1 connected messages with successive counts
contract(
    id="sequence.slc.datalog_queue", func="pycomm3.slc_driver.SLCDriver.get_datalog_queue", call="d.get_datalog_queue(n, 0)",
    bind={"n": ["1", "3"]}, params={"session": P.int(1, 0xFFFFFFFF), "cid": P.bytes(len=4), "head": P.bytes(len=46)},
    requires=["spec.encap.le(head, 8, 4) == 0"],
    setup=["d = pycomm3.slc_driver.SLCDriver('10.0.0.1')", "d._session = session", "d._target_cid = cid", "d._target_is_connected = True",
           "d._connection_opened = True", "t = spec.env.Transport([spec.pccc.pccc_reply(head, 0, b'entry')] * (n + 1))", "d._sock = t",
           "count = lambda k: spec.encap.try_parse_frame(t.sent[k])[3][2]"],
    ensures=["len(t.sent) == n + 1", "result == ['entry'] * n",
             "all(count(k + 1) == spec.seq.successor(count(k), 1, 65535) for k in range(n))"],
    props=["C17"], max_paths=20000)
