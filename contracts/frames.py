"""C11 -- every emitted frame is a well-formed encapsulation message (strict parser spec/encap.py)."""
from pyvc.api import contract, P

PK = "pycomm3.packets."
COMMON = {"cid": P.bytes(len=4), "session": P.int(0, 0xFFFFFFFF), "context": P.bytes(len=8)}

contract(
    id="frame.sendunitdata", func=PK + "base.RequestPacket.build_request",
    call="r.build_request(cid, session, context, 0)",
    params=dict(COMMON, seq=P.int(0, 65535), payload=P.bytes(maxlen=65000)),
    setup=[f"r = {PK}SendUnitDataRequestPacket(seq)", "r.add(payload)"],
    ensures=["spec.encap.try_parse_frame(result) == (0x70, session, context, ('connected', cid, seq, payload))"],
    props=["C11"])
contract(
    id="frame.sendrrdata", func=PK + "base.RequestPacket.build_request",
    call="r.build_request(cid, session, context, 0)",
    params=dict(COMMON, payload=P.bytes(maxlen=65000)),
    setup=[f"r = {PK}SendRRDataRequestPacket()", "r.add(payload)"],
    ensures=["spec.encap.try_parse_frame(result) == (0x6F, session, context, ('unconnected', payload))"],
    props=["C11"])
contract(
    id="frame.register", func=PK + "base.RequestPacket.build_request",
    call="r.build_request(None, session, context, 0)", params=dict(COMMON),
    setup=[f"r = {PK}RegisterSessionRequestPacket(b'\\x01\\x00')"],
    ensures=["spec.encap.try_parse_frame(result) == (0x65, session, context, ('register', 1, 0))"],
    props=["C11"])
for _cls, _cmd in (("UnRegisterSessionRequestPacket", 0x66), ("ListIdentityRequestPacket", 0x63)):
    contract(
        id=f"frame.{_cls}", func=PK + "base.RequestPacket.build_request",
        call="r.build_request(cid, session, context, 0)", params=dict(COMMON),
        setup=[f"r = {PK}{_cls}()"],
        ensures=[f"spec.encap.try_parse_frame(result) == ({_cmd}, session, context, ('empty',))"],
        props=["C11"])

# message assembled exactly once, whatever was called before (shared with C02)
contract(
    id="build_message.idempotent", func=PK + "base.RequestPacket.build_message", call="r.build_message()",
    params={"seq": P.int(0, 65535), "payload": P.bytes(), "times": P.oneof(P.const("0"), P.const("1"), P.const("2"))},
    setup=[f"r = {PK}SendUnitDataRequestPacket(seq)", "r.add(payload)", "x = [r.build_message() for _ in range(times)]"],
    ensures=["result == spec.cip_codec.le_uint(seq, 2) + payload"], props=["C11", "C02"])

# the driver hands the session handle, the connection id and its context to every request
DRV = ["d = pycomm3.cip_driver.CIPDriver('10.0.0.1')", "d._session = session", "d._target_cid = cid",
       "t = spec.env.Transport([bytes(60)])", "d._sock = t"]
contract(
    id="driver.send.connected", func="pycomm3.cip_driver.CIPDriver.send", call="d.send(r)",
    params={"cid": P.bytes(len=4), "session": P.int(0, 0xFFFFFFFF), "payload": P.bytes(maxlen=4000)},
    setup=DRV + [f"r = {PK}SendUnitDataRequestPacket(d._sequence)", "r.add(payload)"],
    ensures=["len(t.sent) == 1",
             "spec.encap.try_parse_frame(t.sent[0]) == (0x70, session, b'_pycomm_', ('connected', cid, r._sequence, payload))",
             "result.raw == bytes(60)"],
    props=["C11"])
contract(
    id="driver.send.unconnected", func="pycomm3.cip_driver.CIPDriver.send", call="d.send(r)",
    params={"cid": P.oneof(P.bytes(len=4), P.const("None")), "session": P.int(0, 0xFFFFFFFF), "payload": P.bytes(maxlen=4000)},
    setup=DRV + [f"r = {PK}SendRRDataRequestPacket()", "r.add(payload)"],
    ensures=["len(t.sent) == 1",
             "spec.encap.try_parse_frame(t.sent[0]) == (0x6F, session, b'_pycomm_', ('unconnected', payload))"],
    props=["C11"])
contract(
    id="driver.send.register", func="pycomm3.cip_driver.CIPDriver.send", call="d.send(r)",
    params={"cid": P.const("None"), "session": P.const("0")},
    setup=DRV + [f"r = {PK}RegisterSessionRequestPacket(d._cfg['protocol version'])"],
    ensures=["len(t.sent) == 1", "spec.encap.try_parse_frame(t.sent[0]) == (0x65, 0, b'_pycomm_', ('register', 1, 0))"],
    props=["C11", "C10"])
contract(
    id="driver.send.unregister", func="pycomm3.cip_driver.CIPDriver.send", call="d.send(r)",
    params={"cid": P.oneof(P.bytes(len=4), P.const("None")), "session": P.int(0, 0xFFFFFFFF)},
    setup=DRV + [f"r = {PK}UnRegisterSessionRequestPacket()"],
    ensures=["len(t.sent) == 1", "spec.encap.try_parse_frame(t.sent[0]) == (0x66, session, b'_pycomm_', ('empty',))",
             "len(t.replies) == 1"],     # no reply is awaited for UnRegisterSession
    props=["C11", "C10"])
