"""C09 -- emitted CIP paths denote the addressed object (parsed back by the independent strict parser spec/epath.py)."""
from pyvc.api import contract, lemma, P

DT = "pycomm3.cip.data_types."
LTYPES = ["class_id", "instance_id", "member_id", "connection_point", "attribute_id", "special", "service_id"]

contract(
    id="logical.encode", func=DT + "CIPSegment.encode", call=DT + "LogicalSegment.encode(seg, padded)",
    params={"value": P.oneof(P.int(), P.bytes(len=1), P.bytes(len=2), P.bytes(len=4), P.bytes(len=0), P.bytes(len=3),
                             P.bytes(len=8), P.const("None"), P.const("'7'"), P.any()),
            "ltype": P.oneof(*[P.const(repr(t)) for t in LTYPES], P.const("'bogus'"), P.const("None")),
            "padded": P.bool()},
    setup=[f"seg = {DT}LogicalSegment(value, ltype)"],
    ensures=["spec.epath.logical_in_domain(ltype, value)",
             "spec.epath.try_parse(result, padded) == [('logical', ltype, spec.epath.logical_value(value))]",
             "implies(padded, len(result) % 2 == 0)"],
    raises_only=["pycomm3.exceptions.DataError"],
    ensures_exc=["not spec.epath.logical_in_domain(ltype, value)"],
    props=["C09", "C08"])

PORT_ALTS = [P.const(repr(n)) for n in ("backplane", "bp", "enet", "dhrio-a", "dhrio-b", "dnet", "cnet", "dh485-a", "dh485-b")]

# ---- port segment: port by name / number, link as int, numeric string, dotted quad, raw bytes
contract(
    id="port.encode.simple", func=DT + "CIPSegment.encode", call=DT + "PortSegment.encode(seg, padded)",
    params={"port": P.oneof(*PORT_ALTS, P.int(), P.const("'nosuchport'"), P.const("None")),
            "link": P.oneof(P.int(), P.numeral(0, 100000), P.bytes(len=1), P.const("None"), P.const("'1.2.3'"), P.const("'x'")),
            "padded": P.bool()},
    setup=[f"seg = {DT}PortSegment(port, link)"],
    ensures=["spec.epath.port_number(port) is not None",
             "spec.epath.try_parse(result, True) == [('port', spec.epath.port_number(port), "
             "link if isinstance(link, bytes) else bytes([int(link)]))]",
             "len(result) % 2 == 0"],
    raises_only=["pycomm3.exceptions.DataError"],
    ensures_exc=["spec.epath.port_number(port) is None or link is None or isinstance(link, str) and not link.isdigit() or "
                 "not isinstance(link, bytes) and not (0 <= int(link) <= 255)"],
    props=["C09", "C15", "C08"])
contract(
    id="port.encode.ip", func=DT + "CIPSegment.encode", call=DT + "PortSegment.encode(seg, padded)",
    params={"port": P.oneof(*PORT_ALTS, P.int(1, 14)),
            "a": P.int(0, 999), "b": P.int(0, 999), "c": P.int(0, 999), "d": P.int(0, 999), "padded": P.bool()},
    setup=["link = spec.epath.dotted_quad(a, b, c, d)", f"seg = {DT}PortSegment(port, link)"],
    ensures=["a <= 255 and b <= 255 and c <= 255 and d <= 255",
             "spec.epath.try_parse(result, True) == [('port', spec.epath.port_number(port), link.encode())]",
             "len(result) % 2 == 0"],
    raises_only=["pycomm3.exceptions.DataError"],
    ensures_exc=["a > 255 or b > 255 or c > 255 or d > 255"],
    props=["C09", "C15", "C08"])
contract(
    id="port.encode.bytes", func=DT + "CIPSegment.encode", call=DT + "PortSegment.encode(seg, padded)",
    params={"port": P.oneof(*PORT_ALTS, P.int(1, 14)), "link": P.bytes(minlen=2, maxlen=255), "padded": P.bool()},
    setup=[f"seg = {DT}PortSegment(port, link)"],
    ensures=["spec.epath.try_parse(result, True) == [('port', spec.epath.port_number(port), link)]", "len(result) % 2 == 0"],
    raises_only=["pycomm3.exceptions.DataError"], ensures_exc=["False"],
    props=["C09", "C15", "C08"])

# ---- ANSI extended symbol segment
contract(
    id="symbol.encode", func=DT + "CIPSegment.encode", call=DT + "DataSegment.encode(seg, padded)",
    params={"name": P.oneof(P.str(maxcp=127), P.str()), "padded": P.bool()},
    setup=[f"seg = {DT}DataSegment(name)"],
    ensures=["spec.epath.try_parse(result, True) == [('symbol', name.encode())]", "len(result) % 2 == 0",
             "len(name.encode()) <= 255"],
    raises_only=["pycomm3.exceptions.DataError"], ensures_exc=["len(name.encode()) > 255"],
    props=["C09", "C08"])

# ---- class / instance / attribute request paths
VAL = P.oneof(P.int(0, 0xFFFFFFFF), P.bytes(len=1), P.bytes(len=2), P.bytes(len=4))
contract(
    id="request_path", func="pycomm3.packets.util.request_path",
    call="pycomm3.packets.util.request_path(class_code, instance, attribute)",
    params={"class_code": VAL, "instance": VAL, "attribute": P.oneof(VAL, P.const("b''"), P.const("0"))},
    ref="spec.epath.encode_request_path(class_code, instance, attribute)",
    callsite=True, callsite_ref="spec.abstract.bytes_of(spec.epath.encode_request_path, class_code, instance, attribute)",
    callsite_ensures=["len(result) >= 5", "len(result) <= 19", "len(result) % 2 == 1"],
    ensures=["spec.epath.try_parse_sized(result) == [('logical', 'class_id', spec.epath.logical_value(class_code)), "
             "('logical', 'instance_id', spec.epath.logical_value(instance))] + "
             "([('logical', 'attribute_id', spec.epath.logical_value(attribute))] if attribute else [])"],
    props=["C09", "C14"])

# ---- tag request paths: constructed-term strings over symbolic names and indices
IDENT = dict(minlen=1, maxlen=40, maxcp=127, free_of=".[]{},: /\\", props=("nondigit",))


SIZE_CLASSES = [(0, 0xFF), (0x100, 0xFFFF), (0x10000, 0xFFFFFFFF)]


def _tag_contract(program, n_idx, classes, tier):
    """n_idx: number of indices of each path level (base tag first); classes: size class of every index, flattened"""
    names = [P.str(**IDENT) for _ in n_idx]
    it = iter(classes)
    indices = [P.tuple(*[P.numeral(*SIZE_CLASSES[next(it)]) for _ in range(k)]) if k else P.const("()") for k in n_idx]
    cid = (f"tag_request_path.{'prog' if program else 'ctrl'}." + "_".join(str(k) for k in n_idx) + "." +
           "".join("smL"[c] for c in classes))
    contract(
        id=cid, func="pycomm3.packets.util.tag_request_path",
        call="pycomm3.packets.util.tag_request_path(tag, tag_info, use_instance_ids)",
        params={"program": P.str(**IDENT) if program else P.const("None"),
                "names": P.tuple(*names), "indices": P.tuple(*indices),
                "instance_id": P.oneof(P.int(1, 0xFFFFFFFF), P.const("0"), P.const("None")),
                "use_instance_ids": P.bool()},
        setup=["tag = spec.epath.tag_string(program, names, indices)", "tag_info = {'instance_id': instance_id}"],
        ensures=["spec.epath.try_parse_sized(result) == spec.epath.tag_path(program, names, indices, instance_id, use_instance_ids)"],
        props=["C09", "C01", "C02"], max_paths=20000, tier=tier)


import itertools as _it
for _prog in (False, True):
    for _shape, _tier in (((0,), "quick"), ((1,), "quick"), ((2,), "quick"), ((3,), "quick"), ((0, 0), "quick"), ((1, 0), "quick"),
                          ((0, 1), "quick"), ((1, 1), "thorough"), ((2, 1), "thorough"), ((0, 0, 0), "quick"),
                          ((1, 1, 1), "thorough"), ((3, 0, 2), "thorough")):
        _k = sum(_shape)
        if _k <= 2:
            _combos = list(_it.product(range(3), repeat=_k))
        else:
            _combos = [(0,) * _k, (1,) * _k, (2,) * _k, tuple(i % 3 for i in range(_k))]
        for _c in _combos:
            _tag_contract(_prog, _shape, _c, _tier)

# frame condition: the path of a tag depends on THIS tag_info -- the same name in another tag database (another controller, a
# re-downloaded program) has another instance id
contract(
    id="tag_request_path.fresh", func="pycomm3.packets.util.tag_request_path",
    call="pycomm3.packets.util.tag_request_path(tag, {'instance_id': id2}, use_instance_ids)",
    bind={"tag": ["'speed'", "'arr[3]'", "'Program:Main.x'"]},
    params={"id1": P.int(1, 0xFFFFFFFF), "id2": P.int(1, 0xFFFFFFFF), "use_instance_ids": P.bool()},
    setup=["first = pycomm3.packets.util.tag_request_path(tag, {'instance_id': id1}, use_instance_ids)",
           "other = pycomm3.packets.util.tag_request_path(tag, {'instance_id': id1}, not use_instance_ids)",
           "name = tag.split('[')[0]", "idx = (3,) if '[' in tag else ()",
           "prog, base = (('Main', 'x') if tag.startswith('Program:') else (None, name))"],
    ensures=["spec.epath.try_parse_sized(result) == spec.epath.tag_path(prog, (base,), (idx,), id2, use_instance_ids)"],
    props=["C09", "C01", "C02"])
