"""C03 (with C01 / C02) -- LogixDriver.read / write over an assumed transport: one result per request, in request order,
failures isolated; values as the reference decodes them.  Request lists are concrete (names, indices, counts); every
reply status (success / error per request) and all reply data are symbolic."""
from pyvc.api import contract, P
from contracts.logix_requests import DB

LD = "pycomm3.logix_driver.LogixDriver"
CONN = DB + ["d._session = 77", "d._target_cid = b'\\x01\\x02\\x03\\x04'", "d._target_is_connected = True", "d._connection_opened = True",
             "d._cfg['use_instance_ids'] = use_ids"]
ST = P.oneof(P.const("0"), P.const("5"), P.const("6"))      # 6 (partial transfer) is an error for Read Tag / Write Tag / Read Modify Write
PATH = "spec.abstract.bytes_of(pycomm3.packets.util.tag_request_path, {tag!r}, tags[{base!r}], use_ids)"

# (request, base tag for the path, reply type field, data size, expected value expr over `dN`, expected type string)
R = {
    "d": ("d", "d", "b'\\xc4\\x00'", 4, "spec.cip_codec.decode_int('DINT', {d})", "'DINT'"),
    "d.5": ("d", "d", "b'\\xc4\\x00'", 4, "spec.logix.bit_of(spec.cip_codec.decode_int('DINT', {d}), 5)", "'BOOL'"),
    "d.0": ("d", "d", "b'\\xc4\\x00'", 4, "spec.logix.bit_of(spec.cip_codec.decode_int('DINT', {d}), 0)", "'BOOL'"),
    "d.31": ("d", "d", "b'\\xc4\\x00'", 4, "spec.logix.bit_of(spec.cip_codec.decode_int('DINT', {d}), 31)", "'BOOL'"),
    "arr[2]{3}": ("arr[2]", "arr", "b'\\xc3\\x00'", 6, "[spec.cip_codec.decode_int('INT', {d}[2*i:2*i+2]) for i in range(3)]", "'INT[3]'"),
    "ba[3]{40}": ("ba[0]", "ba", "b'\\xd3\\x00'", 8, "(spec.cip_codec.decode_bits('DWORD', {d}[:4]) + spec.cip_codec.decode_bits('DWORD', {d}[4:]))[3:43]", "'BOOL[40]'"),
    "u": ("u", "u", "b'\\xa0\\x02\\x34\\x12'", 8, "spec.logix.udt_view(8, [('x', 0, 'DINT'), ('y', 6, 'INT')], {{'flag': (4, 3)}}, set(), {d})", "'MyUdt'"),
    "Program:Main.p": ("Program:Main.p", "Program:Main.p", "b'\\xca\\x00'", 4, "spec.cip_codec.decode_real('REAL', {d})", "'REAL'"),
}
INVALID = {"nope", "u.nope", "arr[1"}


def _read_contract(cid, reqs):
    valid = [(i, r) for i, r in enumerate(reqs) if r not in INVALID]
    params = {"use_ids": P.bool(), "head": P.bytes(len=46)}
    parts, ens = [], []
    for i, r in valid:
        params[f"st{i}"] = ST
        params[f"d{i}"] = P.bytes(len=R[r][3])
        parts.append(f"spec.logix.sub_reply(0x4c, st{i}, {R[r][2]} + d{i})")
    n = len(reqs)
    if len(valid) == 0:
        replies = "[]"
    elif n == 1:
        replies = f"[head + {parts[0]}]"
    else:
        # a controller answers the packet itself with 0x1E (embedded service error) when any embedded service failed
        params["outer"] = P.oneof(P.const("0"), P.const("0x1e"))
        replies = "[spec.logix.multi_reply(head, [" + ", ".join(parts) + "], outer)]"
    res = "result" if n == 1 else "result[{i}]"
    if n > 1:
        ens.append(f"isinstance(result, list) and len(result) == {n}")
    for i, r in enumerate(reqs):
        ri = res.format(i=i)
        name = r.split("{")[0]
        if r in INVALID:
            ens.append(f"not bool({ri}) and {ri}.value is None and isinstance({ri}.error, str) and len({ri}.error) > 0 and {ri}.tag == {r!r}")
        else:
            exp = R[r][4].format(d=f"d{i}")
            ens.append(f"({ri}.tag == {name!r} and same({ri}.value, {exp}) and {ri}.type == {R[r][5]} and {ri}.error is None and bool({ri})) "
                       f"if st{i} == 0 else (not bool({ri}) and {ri}.value is None and len({ri}.error) > 0)")
    contract(
        id=cid, func=LD + ".read", call="d.read(" + ", ".join(repr(r) for r in reqs) + ")", params=params,
        requires=["spec.encap.le(head, 8, 4) == 0"],
        setup=CONN + [f"t = spec.env.Transport({replies})", "d._sock = t"],
        ensures=ens + [f"len(t.sent) == {1 if valid else 0}"], props=["C03", "C01"] + (["C13", "C11"] if len(valid) > 1 else []), max_paths=20000)


_read_contract("read.one.d", ["d"])
_read_contract("read.one.bit", ["d.5"])
_read_contract("read.one.bit0", ["d.0"])            # the lowest and the highest bit: boundary values of the bit number
_read_contract("read.bits.edges", ["d", "d.0", "d.31"])
_read_contract("read.one.invalid", ["nope"])
_read_contract("read.one.boolarray", ["ba[3]{40}"])
_read_contract("read.two", ["d", "arr[2]{3}"])
_read_contract("read.mixed", ["d", "nope", "d.5"])
_read_contract("read.dup", ["u", "d", "u"])
_read_contract("read.program", ["Program:Main.p", "arr[1", "d"])
_read_contract("read.all_invalid", ["nope", "u.nope"])

# ---- the truthiness contract of a Tag
contract(
    id="tag.bool", func="pycomm3.tag.Tag.__bool__", call="bool(pycomm3.tag.Tag('x', value, 'T', error))",
    params={"value": P.oneof(P.const("None"), P.const("0"), P.const("False"), P.const("''"), P.const("[]"), P.int(), P.bytes(), P.any()),
            "error": P.oneof(P.const("None"), P.const("''"), P.const("'boom'"), P.str())},
    ensures=["result == (value is not None and error is None)"], props=["C03"])


# ---- writes
W = {   # request -> (plc tag, base, elements, value param, expected encoded bytes expr, type string)
    "d": ("d", "d", 1, P.int(-2**31, 2**31 - 1), "spec.cip_codec.encode_int('DINT', {v})", "'DINT'"),
    "arr[1]{2}": ("arr[1]", "arr", 2, P.list(P.int(-32768, 32767), 2), "b''.join(spec.cip_codec.encode_int('INT', x) for x in {v})", "'INT[2]'"),
    "s": ("s", "s", 1, P.str(maxcp=0xFF, maxlen=100), "spec.logix.logix_string_bytes(82, {v})", "'STRING'"),
    # one element of an array of strings: the value is one string, not a sequence of characters
    "sa[1]": ("sa[1]", "sa", 1, P.str(maxcp=0xFF, maxlen=100), "spec.logix.logix_string_bytes(82, {v})", "'STRING'"),
    "sa[0]{2}": ("sa[0]", "sa", 2, P.tuple(P.str(maxcp=0xFF, maxlen=82), P.const("'xy'")), "b''.join(spec.logix.logix_string_bytes(82, x) for x in {v})", "'STRING[2]'"),
}
WINVALID = {"nope": "1", "arr[0]{3}": "[1, 2]", "d ": "2**40"}     # unknown tag, too few values, out of range value


def _write_contract(cid, reqs):
    """reqs: list of request strings (plain writes) ; bit writes handled by a separate contract"""
    params = {"use_ids": P.bool(), "head": P.bytes(len=46)}
    valid = [(i, r) for i, r in enumerate(reqs) if r in W]
    args, parts, ens, msgs = [], [], [], []
    for i, r in enumerate(reqs):
        if r in W:
            params[f"v{i}"] = W[r][3]
            params[f"st{i}"] = ST
            args.append(f"({r!r}, v{i})")
            parts.append(f"spec.logix.sub_reply(0x4d, st{i})")
            path = PATH.format(tag=W[r][0], base=W[r][1])
            msgs.append(f"spec.logix.write_request({path}, spec.logix.type_field(tags[{W[r][1]!r}]), {W[r][2]}, " + W[r][4].format(v=f"v{i}") + ")")
        else:
            args.append(f"({r.strip()!r}, {WINVALID[r]})")
    n = len(reqs)
    if not valid:
        replies = "[]"
    elif n == 1:
        replies = f"[head + {parts[0]}]"
    else:
        params["outer"] = P.oneof(P.const("0"), P.const("0x1e"))
        replies = "[spec.logix.multi_reply(head, [" + ", ".join(parts) + "], outer)]"
    res = "result" if n == 1 else "result[{i}]"
    if n > 1:
        ens.append(f"isinstance(result, list) and len(result) == {n}")
    for i, r in enumerate(reqs):
        ri = res.format(i=i)
        if r in W:
            ens.append(f"({ri}.tag == {r.split('{')[0]!r} and {ri}.value == v{i} and {ri}.type == {W[r][5]} and {ri}.error is None and bool({ri})) "
                       f"if st{i} == 0 else (not bool({ri}) and len({ri}.error) > 0)")
        else:
            ens.append(f"not bool({ri}) and isinstance({ri}.error, str) and len({ri}.error) > 0")
    if valid:
        sent = "spec.encap.try_parse_frame(t.sent[0])[3][3]"
        if n == 1:
            ens.append(f"{sent} == {msgs[0]}")
        else:
            ens.append(f"spec.logix.parse_multi_request({sent}) == [" + ", ".join(msgs) + "]")
    contract(
        id=cid, func=LD + ".write", call="d.write(" + ", ".join(args) + ")", params=params,
        requires=["spec.encap.le(head, 8, 4) == 0"],
        setup=CONN + [f"t = spec.env.Transport({replies})", "d._sock = t"],
        ensures=ens + [f"len(t.sent) == {1 if valid else 0}"], props=["C03", "C02"] + (["C13", "C11"] if len(valid) > 1 else []), max_paths=20000)


_write_contract("write.one.d", ["d"])
_write_contract("write.one.string", ["s"])
_write_contract("write.string_array.element", ["sa[1]"])
_write_contract("write.string_array.slice", ["sa[0]{2}"])
_write_contract("write.two", ["d", "arr[1]{2}"])
_write_contract("write.mixed", ["d", "nope", "arr[0]{3}", "d"])
_write_contract("write.all_invalid", ["nope", "d "])
_write_contract("write.one_valid_one_invalid", ["d", "nope"])        # a multi-request call in which one write ends up alone
_write_contract("write.one_invalid_one_valid", ["arr[0]{3}", "arr[1]{2}"])

# several bits of one word in one call: merged into ONE read-modify-write, every request gets its result
contract(
    id="write.bits.merged", func=LD + ".write", call="d.write(('d.3', b1), ('d.17', b2), ('d', v))",
    params={"use_ids": P.bool(), "head": P.bytes(len=46), "b1": P.bool(), "b2": P.bool(), "v": P.int(-2**31, 2**31 - 1), "st0": ST, "st1": ST},
    requires=["spec.encap.le(head, 8, 4) == 0"],
    setup=CONN + ["t = spec.env.Transport([spec.logix.multi_reply(head, [spec.logix.sub_reply(0x4d, st0)]), head + spec.logix.sub_reply(0x4e, st1)])",
                  "d._sock = t", "m = spec.logix.rmw_masks(4, [(3, b1), (17, b2)])"],
    ensures=["isinstance(result, list) and len(result) == 3", "len(t.sent) == 2",
             "bool(result[0]) == (st1 == 0) and bool(result[1]) == (st1 == 0) and bool(result[2]) == (st0 == 0)",
             "result[0].tag == 'd.3' and result[1].tag == 'd.17' and result[2].tag == 'd'",
             "spec.encap.try_parse_frame(t.sent[1])[3][3] == spec.logix.rmw_request(" + PATH.format(tag="d", base="d") + ", 4, m[0], m[1])"],
    props=["C03", "C02"], max_paths=20000)
contract(
    id="write.bit.single", func=LD + ".write", call="d.write('u.x.31', b1)",
    params={"use_ids": P.bool(), "head": P.bytes(len=46), "b1": P.bool(), "st1": ST},
    requires=["spec.encap.le(head, 8, 4) == 0"],
    setup=CONN + ["t = spec.env.Transport([head + spec.logix.sub_reply(0x4e, st1)])", "d._sock = t", "m = spec.logix.rmw_masks(4, [(31, b1)])"],
    ensures=["bool(result) == (st1 == 0)", "result.tag == 'u.x.31'", "len(t.sent) == 1",
             "spec.encap.try_parse_frame(t.sent[0])[3][3] == spec.logix.rmw_request(" + PATH.format(tag="u.x", base="u").replace("tags['u']", "tags['u']['data_type']['internal_tags']['x']") + ", 4, m[0], m[1])"],
    props=["C03", "C02"], max_paths=20000)
contract(
    id="write.bit.on_struct", func=LD + ".write", call="d.write(('u.7', True), ('d', 5))",
    params={"use_ids": P.bool(), "head": P.bytes(len=46)},
    requires=["spec.encap.le(head, 8, 4) == 0"],
    setup=CONN + ["t = spec.env.Transport([spec.logix.multi_reply(head, [spec.logix.sub_reply(0x4d, 0)])])", "d._sock = t"],
    ensures=["len(result) == 2", "not bool(result[0]) and len(result[0].error) > 0", "bool(result[1])"],
    props=["C03"], max_paths=20000)

# a bit beyond the integer's width: an error for that request only
contract(
    id="write.bit.out_of_range", func=LD + ".write", call="d.write(('d.' + b, True), ('d', 5))",
    params={"use_ids": P.bool(), "head": P.bytes(len=46), "b": P.numeral(32, 10**6), "st0": ST},
    requires=["spec.encap.le(head, 8, 4) == 0"],
    setup=CONN + ["t = spec.env.Transport([spec.logix.multi_reply(head, [spec.logix.sub_reply(0x4d, st0)])])", "d._sock = t"],
    ensures=["len(result) == 2", "not bool(result[0]) and len(result[0].error) > 0", "bool(result[1]) == (st0 == 0)", "len(t.sent) == 1"],
    props=["C03", "C02"], max_paths=20000)
contract(
    id="read.bit.out_of_range", func=LD + ".read", call="d.read('d.' + b, 'd')",
    params={"use_ids": P.bool(), "head": P.bytes(len=46), "b": P.numeral(32, 10**6), "st0": ST, "d0": P.bytes(len=4)},
    requires=["spec.encap.le(head, 8, 4) == 0"],
    setup=CONN + ["t = spec.env.Transport([spec.logix.multi_reply(head, [spec.logix.sub_reply(0x4c, st0, b'\\xc4\\x00' + d0)])])", "d._sock = t"],
    ensures=["len(result) == 2", "not bool(result[0]) and len(result[0].error) > 0 and result[0].value is None",
             "bool(result[1]) == (st0 == 0)", "len(t.sent) == 1"],
    props=["C03", "C01"], max_paths=20000)

# Micro800: no multi-service packets -- one frame per request, bit writes included, every request keeps its own result
contract(
    id="write.micro800", func=LD + ".write", call="d.write(('d.1', b1), ('arr[1].2', b2), ('d', v), ('nope', 1), ('d.3', b3))",
    params={"use_ids": P.bool(), "head": P.bytes(len=46), "b1": P.bool(), "b2": P.bool(), "b3": P.const("True"), "v": P.int(-2**31, 2**31 - 1),
            "st0": ST, "st1": ST, "st2": P.const("0"), "st4": ST},
    requires=["spec.encap.le(head, 8, 4) == 0"],
    setup=CONN + ["d._micro800 = True",
                  "t = spec.env.Transport([head + spec.logix.sub_reply(0x4e, st0), head + spec.logix.sub_reply(0x4e, st1), "
                  "head + spec.logix.sub_reply(0x4d, st2), head + spec.logix.sub_reply(0x4e, st4)])", "d._sock = t",
                  "m0 = spec.logix.rmw_masks(4, [(1, b1)])", "m1 = spec.logix.rmw_masks(2, [(2, b2)])", "m4 = spec.logix.rmw_masks(4, [(3, b3)])"],
    ensures=["isinstance(result, list) and len(result) == 5", "len(t.sent) == 4",
             "bool(result[0]) == (st0 == 0) and bool(result[1]) == (st1 == 0) and bool(result[2]) == (st2 == 0) and bool(result[4]) == (st4 == 0)",
             "not bool(result[3]) and len(result[3].error) > 0",
             "[r.tag for r in result] == ['d.1', 'arr[1].2', 'd', 'nope', 'd.3']",
             "spec.encap.try_parse_frame(t.sent[0])[3][3] == spec.logix.rmw_request(" + PATH.format(tag="d", base="d") + ", 4, m0[0], m0[1])",
             "spec.encap.try_parse_frame(t.sent[1])[3][3] == spec.logix.rmw_request(" + PATH.format(tag="arr[1]", base="arr") + ", 2, m1[0], m1[1])",
             "spec.encap.try_parse_frame(t.sent[3])[3][3] == spec.logix.rmw_request(" + PATH.format(tag="d", base="d") + ", 4, m4[0], m4[1])"],
    props=["C03", "C02"], max_paths=40000)
contract(
    id="read.micro800", func=LD + ".read", call="d.read('d', 'nope', 'arr[2]{3}', 'd.5')",
    params={"use_ids": P.bool(), "head": P.bytes(len=46), "st0": ST, "st2": ST, "st3": ST, "d0": P.bytes(len=4), "d2": P.bytes(len=6), "d3": P.bytes(len=4)},
    requires=["spec.encap.le(head, 8, 4) == 0"],
    setup=CONN + ["d._micro800 = True",
                  "t = spec.env.Transport([head + spec.logix.sub_reply(0x4c, st0, b'\\xc4\\x00' + d0), "
                  "head + spec.logix.sub_reply(0x4c, st2, b'\\xc3\\x00' + d2), head + spec.logix.sub_reply(0x4c, st3, b'\\xc4\\x00' + d3)])", "d._sock = t"],
    ensures=["isinstance(result, list) and len(result) == 4", "len(t.sent) == 3",
             "(bool(result[0]) and result[0].value == spec.cip_codec.decode_int('DINT', d0)) if st0 == 0 else not bool(result[0])",
             "not bool(result[1]) and len(result[1].error) > 0",
             "(bool(result[2]) and result[2].value == [spec.cip_codec.decode_int('INT', d2[2*i:2*i+2]) for i in range(3)]) if st2 == 0 else not bool(result[2])",
             "(bool(result[3]) and result[3].value == spec.logix.bit_of(spec.cip_codec.decode_int('DINT', d3), 5)) if st3 == 0 else not bool(result[3])",
             "[r.tag for r in result] == ['d', 'nope', 'arr[2]', 'd.5']"],
    props=["C03", "C01"], max_paths=40000)

# the same bit twice in one call (and a plain write in between): every request gets its result, the last value wins
contract(
    id="write.bits.same_bit_twice", func=LD + ".write", call="d.write(('d.3', b1), ('d', v), ('d.3', b2))",
    params={"use_ids": P.bool(), "head": P.bytes(len=46), "b1": P.bool(), "b2": P.bool(), "v": P.int(-2**31, 2**31 - 1), "st0": ST, "st1": ST},
    requires=["spec.encap.le(head, 8, 4) == 0"],
    setup=CONN + ["t = spec.env.Transport([spec.logix.multi_reply(head, [spec.logix.sub_reply(0x4d, st0)]), head + spec.logix.sub_reply(0x4e, st1)])",
                  "d._sock = t", "m = spec.logix.rmw_masks(4, [(3, b1), (3, b2)])"],
    ensures=["isinstance(result, list) and len(result) == 3", "len(t.sent) == 2",
             "bool(result[0]) == (st1 == 0) and bool(result[2]) == (st1 == 0) and bool(result[1]) == (st0 == 0)",
             "result[0].tag == 'd.3' and result[2].tag == 'd.3' and result[1].tag == 'd'",
             "spec.encap.try_parse_frame(t.sent[1])[3][3] == spec.logix.rmw_request(" + PATH.format(tag="d", base="d") + ", 4, m[0], m[1])"],
    props=["C03", "C02"], max_paths=20000)

# bit 0 (the boundary value of the bit number): alone and beside a plain write
contract(
    id="write.bit.zero", func=LD + ".write", call="d.write('d.0', b1)",
    params={"use_ids": P.bool(), "head": P.bytes(len=46), "b1": P.bool(), "st1": ST},
    requires=["spec.encap.le(head, 8, 4) == 0"],
    setup=CONN + ["t = spec.env.Transport([head + spec.logix.sub_reply(0x4e, st1)])", "d._sock = t", "m = spec.logix.rmw_masks(4, [(0, b1)])"],
    ensures=["bool(result) == (st1 == 0)", "result.tag == 'd.0'", "result.type == 'BOOL'", "len(t.sent) == 1",
             "spec.encap.try_parse_frame(t.sent[0])[3][3] == spec.logix.rmw_request(" + PATH.format(tag="d", base="d") + ", 4, m[0], m[1])"],
    props=["C03", "C02"], max_paths=20000)
contract(
    id="write.bit.zero.multi", func=LD + ".write", call="d.write(('d.0', b1), ('arr[1].0', b2), ('d', v))",
    params={"use_ids": P.bool(), "head": P.bytes(len=46), "b1": P.bool(), "b2": P.bool(), "v": P.int(-2**31, 2**31 - 1), "st0": ST, "st1": ST, "st2": ST},
    requires=["spec.encap.le(head, 8, 4) == 0"],
    setup=CONN + ["t = spec.env.Transport([spec.logix.multi_reply(head, [spec.logix.sub_reply(0x4d, st0)]), head + spec.logix.sub_reply(0x4e, st1), "
                  "head + spec.logix.sub_reply(0x4e, st2)])", "d._sock = t"],
    ensures=["len(result) == 3", "[r.tag for r in result] == ['d.0', 'arr[1].0', 'd']", "result[0].type == 'BOOL' and result[1].type == 'BOOL' and result[2].type == 'DINT'",
             "bool(result[0]) == (st1 == 0) and bool(result[1]) == (st2 == 0) and bool(result[2]) == (st0 == 0)", "len(t.sent) == 3"],
    props=["C03", "C02"], max_paths=20000)

# a plain write first, bit writes after it: the bit-write group must not take the place of request 0
contract(
    id="write.plain_then_bits", func=LD + ".write", call="d.write(('d', v), ('arr[1].2', b1), ('d.5', b2))",
    params={"use_ids": P.bool(), "head": P.bytes(len=46), "b1": P.bool(), "b2": P.bool(), "v": P.int(-2**31, 2**31 - 1), "st0": ST, "st1": ST, "st2": ST},
    requires=["spec.encap.le(head, 8, 4) == 0"],
    setup=CONN + ["t = spec.env.Transport([spec.logix.multi_reply(head, [spec.logix.sub_reply(0x4d, st0)]), head + spec.logix.sub_reply(0x4e, st1), "
                  "head + spec.logix.sub_reply(0x4e, st2)])", "d._sock = t"],
    ensures=["len(result) == 3", "[r.tag for r in result] == ['d', 'arr[1].2', 'd.5']",
             "bool(result[0]) == (st0 == 0) and bool(result[1]) == (st1 == 0) and bool(result[2]) == (st2 == 0)", "len(t.sent) == 3",
             "result[0].value == v if st0 == 0 else True"],
    props=["C03", "C02"], max_paths=20000)
