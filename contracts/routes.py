"""C15 -- connection-path strings parse to the documented route.

Path strings are constructed terms: host [":" port] (sep segment)*, every separator an independent symbolic character
from {'/', '\\', ','}; hosts are symbolic strings free of separators; ports / slots / IP octets are symbolic numerals;
port names range over the alias table.  So each contract instance covers every separator mix, every host, every number."""
from pyvc.api import contract, P, _POneOf

HOST = dict(minlen=1, maxlen=40, maxcp=127, free_of="/\\,:")
PORT_NAMES = ["backplane", "bp", "enet", "dhrio-a", "dhrio-b", "dnet", "cnet", "dh485-a", "dh485-b"]


class _PSep(_POneOf.__mro__[1]):
    """one separator character, symbolic over {'/', '\\', ','}"""

    def make(self, name):
        from pyvc.sym import ctx, BL, mk_rope
        import z3
        c = ctx()
        t = z3.Int(c.fresh_name(name))
        c.assume(z3.Or(t == 47, t == 92, t == 44))
        return mk_rope("str", [BL([t])])

    def concretize(self, value, model):
        from pyvc.api import _ev_seq
        return repr("".join(chr(c) for c in _ev_seq(value, model)))

    def sample(self, rng):
        return repr(rng.choice(["/", "\\", ","]))


def SEP():
    return _PSep()


PORTSPEC = P.oneof(*[P.const(repr(n)) for n in PORT_NAMES], P.numeral(1, 14))
LINK_SLOT = P.numeral(0, 255)


def _route_contract(n_hops, with_port, link_kinds, auto_slot, tier="quick"):
    """link_kinds: per hop 's' (slot numeral) or 'i' (dotted quad)"""
    params = {"host": P.str(**HOST)}
    parts = ["host"]
    if with_port:
        params["tcp"] = P.numeral(1, 65534)
        parts.append("':' + tcp")
    pairs = []
    for h in range(n_hops):
        params[f"s{h}a"], params[f"s{h}b"] = SEP(), SEP()
        params[f"port{h}"] = PORTSPEC
        if link_kinds[h] == "s":
            params[f"link{h}"] = LINK_SLOT
            link = f"link{h}"
        else:
            for o in "abcd":
                params[f"o{h}{o}"] = P.numeral(0, 255)
            link = f"(o{h}a + '.' + o{h}b + '.' + o{h}c + '.' + o{h}d)"
        parts.append(f"s{h}a + port{h} + s{h}b + {link}")
        pairs.append(f"(spec.epath.port_number(int(port{h}) if port{h}.isdigit() else port{h}), spec.epath.link_bytes({link}))")
    expected = "[" + ", ".join(pairs) + "]"
    if n_hops == 0 and auto_slot:
        expected = "[(1, b'\\x00')]"
    contract(
        id=f"connpath.{n_hops}hops.{'port' if with_port else 'noport'}.{''.join(link_kinds) or '-'}.{'auto' if auto_slot else 'plain'}",
        func="pycomm3.cip_driver.parse_connection_path", call=f"pycomm3.cip_driver.parse_connection_path(path, {auto_slot})",
        params=params, setup=["path = " + " + ".join(parts)],
        ensures=["result[0] == host", "result[1] == int(tcp)" if with_port else "result[1] is None",
                 "pycomm3.cip.data_types.PADDED_EPATH.encode(result[2], length=True, pad_length=True) == "
                 f"spec.epath.route_bytes({expected})"],
        props=["C15"], tier=tier, max_paths=40000)


for _auto in (False, True):
    _route_contract(0, False, "", _auto)
    _route_contract(0, True, "", _auto)
    _route_contract(1, False, "s", _auto)
    _route_contract(1, True, "i", _auto)
    _route_contract(2, False, "si", _auto)
    _route_contract(2, True, "ss", _auto, tier="thorough")
    _route_contract(3, False, "sis", _auto, tier="thorough")

# shortcut: host/slot with auto_slot -> backplane/slot
contract(
    id="connpath.shortcut.slot", func="pycomm3.cip_driver.parse_connection_path",
    call="pycomm3.cip_driver.parse_connection_path(path, True)",
    params={"host": P.str(**HOST), "sep": SEP(), "slot": P.numeral(0, 255)}, setup=["path = host + sep + slot"],
    ensures=["result[0] == host", "result[1] is None",
             "pycomm3.cip.data_types.PADDED_EPATH.encode(result[2], length=True, pad_length=True) == "
             "spec.epath.route_bytes([(1, bytes([int(slot)]))])"],
    props=["C15"])
# the three drivers: Logix and SLC enable the shortcuts, the base driver does not
contract(
    id="connpath.driver_flags", func="pycomm3.cip_driver.CIPDriver.__init__", call="(pycomm3.cip_driver.CIPDriver._auto_slot_cip_path, "
    "pycomm3.logix_driver.LogixDriver._auto_slot_cip_path, pycomm3.slc_driver.SLCDriver._auto_slot_cip_path)",
    ensures=["result == (False, True, True)"], no_entry_check=True, props=["C15"])

# ---- rejection: outside the grammar => RequestError at parse time or DataError at encode time, never route bytes
REJECT = "pycomm3.cip.data_types.PADDED_EPATH.encode(pycomm3.cip_driver.parse_connection_path(path, auto)[2], length=True, pad_length=True)"
BOTH = ["pycomm3.exceptions.RequestError", "pycomm3.exceptions.DataError"]
contract(
    id="connpath.reject.odd_segments", func="pycomm3.cip_driver.parse_connection_path", call=REJECT,
    bind={"case": ["(False, 1)", "(False, 3)", "(True, 3)"]},
    params={"host": P.str(**HOST), "segs": P.list(P.oneof(P.const("'bp'"), P.numeral(0, 255)), 3), "seps": P.list(SEP(), 3)},
    setup=["auto = case[0]", "path = host + ''.join(seps[i] + segs[i] for i in range(case[1]))"],
    ensures=["False"], raises_only=BOTH, props=["C15"])
contract(
    id="connpath.reject.port_name", func="pycomm3.cip_driver.parse_connection_path", call=REJECT,
    bind={"auto": ["False", "True"]},
    params={"host": P.str(**HOST), "bad": P.oneof(P.const("'plane'"), P.const("'BP'"), P.const("'ethernet'"), P.const("'0'"),
                                                   P.numeral(15, 300), P.const("''")),
            "s1": SEP(), "s2": SEP(), "link": LINK_SLOT},
    setup=["path = host + s1 + bad + s2 + link"], ensures=["False"], raises_only=BOTH, props=["C15"])
contract(
    id="connpath.reject.link", func="pycomm3.cip_driver.parse_connection_path", call=REJECT,
    bind={"auto": ["False", "True"]},
    params={"host": P.str(**HOST), "s1": SEP(), "s2": SEP(),
            "link": P.oneof(P.numeral(256, 100000), P.const("'1.2.3'"), P.const("'1.2.3.256'"), P.const("'slot'"), P.const("''"),
                            P.const("'1.2.3.4.5'"))},
    setup=["path = host + s1 + 'bp' + s2 + link"], ensures=["False"], raises_only=BOTH, props=["C15"])
contract(
    id="connpath.reject.tcp_port", func="pycomm3.cip_driver.parse_connection_path", call=REJECT,
    bind={"auto": ["False", "True"]},
    params={"host": P.str(**HOST), "tcp": P.oneof(P.const("'0'"), P.numeral(65536, 10**7), P.const("'http'"), P.const("''"),
                                                   P.const("'-5'"), P.const("'44818:1'"))},
    setup=["path = host + ':' + tcp + '/bp/1'"], ensures=["False"], raises_only=["pycomm3.exceptions.RequestError"], props=["C15"])

# frame condition: every parse gives a route of its own -- a caller that edits the route it got (LogixDriver drops the last
# hop for a Micro800) does not change what a later parse of the same text returns
contract(
    id="connpath.fresh_result", func="pycomm3.cip_driver.parse_connection_path", call="pycomm3.cip_driver.parse_connection_path(path, auto)",
    bind={"case": ["('10.0.0.1/bp/2/enet/192.168.1.20/bp/0', True)", "('10.0.0.1/bp/2/enet/192.168.1.20/bp/0', False)",
                   "('10.0.0.1', True)", "('10.0.0.1', False)", "('10.0.0.1/3', True)"]},
    setup=["path = case[0]", "auto = case[1]", "first = pycomm3.cip_driver.parse_connection_path(path, auto)",
           "expected = pycomm3.cip.data_types.PADDED_EPATH.encode(first[2], length=True, pad_length=True)",
           "dropped = [first[2].pop() for _ in range(len(first[2]))]"],
    ensures=["pycomm3.cip.data_types.PADDED_EPATH.encode(result[2], length=True, pad_length=True) == expected", "result[2] is not first[2]"],
    raises_only=["pycomm3.exceptions.RequestError"], props=["C15"])
