"""C05 -- the uploaded tag list and type definitions mirror the controller."""
from pyvc.api import contract, P
from contracts.logix_requests import DB

LD = "pycomm3.logix_driver.LogixDriver"
NAME = dict(minlen=1, maxlen=40, maxcp=127, free_of=":.[]", props=("nondigit",))
ENTRY = {"inst": P.int(0, 2**32 - 1), "name": P.str(**NAME), "stype": P.int(0, 65535), "addr": P.int(0, 2**32 - 1), "oaddr": P.int(0, 2**32 - 1),
         "swc": P.int(0, 2**32 - 1), "d1": P.int(0, 2**32 - 1), "d2": P.int(0, 2**32 - 1), "d3": P.int(0, 2**32 - 1), "acc": P.int(0, 255)}


def _entry_params(k):
    out = {}
    for i in range(k):
        for n, p in ENTRY.items():
            out[f"{n}{i}"] = p
    return out


def _args(i, with_access):
    return f"inst{i}, name{i}, stype{i}, addr{i}, oaddr{i}, swc{i}, [d1{i}, d2{i}, d3{i}]" + (f", acc{i}" if with_access else "")


for _rev, _acc in ((17, False), (20, True)):
    for _k in (1, 2):
        contract(
            id=f"upload.parse_entries.v{_rev}.{_k}", func=LD + "._parse_instance_attribute_list",
            call="d._parse_instance_attribute_list(resp, tag_list)", bind={"status": ["0", "6", "5"]}, params=_entry_params(_k),
            setup=[f"d = {LD}('10.0.0.1')", f"d._info = {{'revision': {{'major': {_rev}, 'minor': 1}}}}", "tag_list = []",
                   "data = " + " + ".join(f"spec.logix.symbol_entry({_args(i, _acc)})" for i in range(_k)),
                   "resp = spec.env.Obj(data=data, service_status=status)"],
            ensures=["tag_list == [" + ", ".join(f"spec.logix.symbol_record({_args(i, _acc)})" for i in range(_k)) + "]",
                     f"result == (inst{_k - 1} + 1 if status == 6 else -1)"],
            props=["C05"], max_paths=20000)
contract(
    id="upload.parse_entries.truncated", func=LD + "._parse_instance_attribute_list", call="d._parse_instance_attribute_list(resp, tag_list)",
    params=dict(_entry_params(1), cut=P.int(1, 60)),
    setup=[f"d = {LD}('10.0.0.1')", "d._info = {'revision': {'major': 20, 'minor': 1}}", "tag_list = []",
           f"full = spec.logix.symbol_entry({_args(0, True)})", "resp = spec.env.Obj(data=full[:len(full) - cut], service_status=0)"],
    requires=["cut < 33 + len(name0)"], ensures=["False"], raises_only=["pycomm3.exceptions.ResponseError"], props=["C05"], max_paths=20000)

# ---- paging: the next request starts after the last instance received, whatever the page boundaries
contract(
    id="upload.paging", func=LD + "._get_instance_attribute_list_service", call="d._get_instance_attribute_list_service(None)",
    tier="thorough", params=dict(_entry_params(3), head=P.bytes(len=46)),
    requires=["spec.encap.le(head, 8, 4) == 0", "inst0 < inst1", "inst1 < inst2"],
    setup=[f"d = {LD}('10.0.0.1')", "d._info = {'revision': {'major': 20, 'minor': 1}}", "d._session = 5", "d._target_cid = b'abcd'",
           "d._target_is_connected = True", "d._connection_opened = True",
           f"p1 = spec.logix.symbol_entry({_args(0, True)}) + spec.logix.symbol_entry({_args(1, True)})",
           f"p2 = spec.logix.symbol_entry({_args(2, True)})",
           "t = spec.env.Transport([head + spec.logix.sub_reply(0x55, 6, p1), head + spec.logix.sub_reply(0x55, 0, p2)])", "d._sock = t",
           "req = lambda k: spec.msgrouter.try_parse_request(spec.encap.try_parse_frame(t.sent[k])[3][3])"],
    ensures=["result == [" + ", ".join(f"spec.logix.symbol_record({_args(i, True)})" for i in range(3)) + "]", "len(t.sent) == 2",
             "req(0)[0] == 0x55 and req(0)[1] == [('logical', 'class_id', 0x6B), ('logical', 'instance_id', 0)]",
             "req(1)[1] == [('logical', 'class_id', 0x6B), ('logical', 'instance_id', inst1 + 1)]",
             "req(0)[2] == b'\\x07\\x00\\x01\\x00\\x02\\x00\\x03\\x00\\x05\\x00\\x06\\x00\\x08\\x00\\x0a\\x00'"],
    props=["C05"], max_paths=30000)

contract(
    id="upload.paging.2", func=LD + "._get_instance_attribute_list_service", call="d._get_instance_attribute_list_service(None)",
    params=dict(_entry_params(2), head=P.bytes(len=46)), requires=["spec.encap.le(head, 8, 4) == 0", "inst0 < inst1"],
    setup=[f"d = {LD}('10.0.0.1')", "d._info = {'revision': {'major': 20, 'minor': 1}}", "d._session = 5", "d._target_cid = b'abcd'",
           "d._target_is_connected = True", "d._connection_opened = True",
           f"t = spec.env.Transport([head + spec.logix.sub_reply(0x55, 6, spec.logix.symbol_entry({_args(0, True)})), "
           f"head + spec.logix.sub_reply(0x55, 0, spec.logix.symbol_entry({_args(1, True)}))])", "d._sock = t",
           "msg = lambda k: spec.encap.try_parse_frame(t.sent[k])[3][3]"],
    ensures=["result == [" + ", ".join(f"spec.logix.symbol_record({_args(i, True)})" for i in range(2)) + "]", "len(t.sent) == 2",
             "spec.msgrouter.try_parse_request(msg(0))[1] == [('logical', 'class_id', 0x6B), ('logical', 'instance_id', 0)]",
             "spec.msgrouter.try_parse_request(msg(1))[1] == [('logical', 'class_id', 0x6B), ('logical', 'instance_id', inst0 + 1)]"],
    props=["C05"], max_paths=30000)

# ---- filtering of program / routine / task / module / system symbols
RAW = ("[{'tag_name': n, 'instance_id': 100 + i, 'symbol_type': st, 'symbol_address': 0, 'symbol_object_address': 0, 'software_control': 1 << 26, "
       "'external_access': 'Read/Write', 'dimensions': [0, 0, 0]} for i, (n, st) in enumerate(names)]")
NAMES = ("[('Program:Main', 0x68), ('Program:Pump_Control', 0x68), ('Program:agitator', 0x68), ('Program:Program_B', 0x68), ('Task:Fast', 0x70), ('Task:skate', 0x70), ('Map:Local', 0xC4), ('Cxn:Standard:1', 0xC4), ('plain', 0xC4), ('__hidden', 0xC4), "
         "('Local:1:I', 0xC4), ('Local:2:O', 0xC4), ('Rack:C', 0xC4), ('odd:name', 0xC4), ('sys_flagged', 0x10C4), ('_single', 0xC3), "
         "('Local:1:I', 0xC4), ('Drive:I1', 0xC4), ('Drive:O1', 0xC4), ('Guard:2:SI', 0xC4), ('Guard:2:SO', 0xC4), ('Rack:3:C', 0xC4), "
         "('weird:Task', 0xC4), ('a:Ix:y', 0xC4)]")
contract(
    id="upload.isolate.controller", func=LD + "._isolate_user_tags", call="[x['tag_name'] for x in d._isolate_user_tags(raw, None)]",
    setup=[f"d = {LD}('10.0.0.1')", "d._info = {'programs': {}, 'tasks': {}, 'modules': {}}",
           "d._cache = {'tag_name:id': {}, 'id:struct': {}, 'handle:id': {}, 'id:udt': {}}", f"names = {NAMES}", f"raw = {RAW}"],
    ensures=["result == [n for (n, st) in names if spec.logix.user_visible(n, st)]", "list(d._info['programs']) == ['Main', 'Pump_Control', 'agitator', 'Program_B']",
             "list(d._info['tasks']) == ['Fast', 'skate']", "sorted(d._info['modules']) == ['Drive', 'Guard', 'Local', 'Rack', 'a']"],
    props=["C05"])
contract(
    id="upload.isolate.program", func=LD + "._isolate_user_tags", call="[x['tag_name'] for x in d._isolate_user_tags(raw, 'Main')]",
    setup=[f"d = {LD}('10.0.0.1')", "d._info = {'programs': {'Main': {'instance_id': 1, 'routines': []}}, 'tasks': {}, 'modules': {}}",
           "d._cache = {'tag_name:id': {}, 'id:struct': {}, 'handle:id': {}, 'id:udt': {}}",
           "names = [('Routine:MainRoutine', 0x6D), ('Routine:einRoutine', 0x6D), ('counter', 0xC4), ('__x', 0xC4)]", f"raw = {RAW}"],
    ensures=["result == ['Program:Main.counter']", "d._info['programs']['Main']['routines'] == ['MainRoutine', 'einRoutine']"], props=["C05"])
# any program / task name: the name recorded is the symbol name without its prefix, whatever letters it starts with
contract(
    id="upload.isolate.scope_names", func=LD + "._isolate_user_tags", call="[x['tag_name'] for x in d._isolate_user_tags(raw, None)]",
    params={"pname": P.str(**NAME), "tname": P.str(**NAME)},
    setup=[f"d = {LD}('10.0.0.1')", "d._info = {'programs': {}, 'tasks': {}, 'modules': {}}",
           "d._cache = {'tag_name:id': {}, 'id:struct': {}, 'handle:id': {}, 'id:udt': {}}",
           "names = [('Program:' + pname, 0x68), ('Task:' + tname, 0x70), ('plain', 0xC4)]", f"raw = {RAW}"],
    ensures=["result == ['plain']", "list(d._info['programs']) == [pname]", "list(d._info['tasks']) == [tname]"], props=["C05"],
    bounded="the names become dictionary keys (info['programs'][name]): symbolic keys in a store are outside the engine; sampled natively")

# ---- tag record from the symbol type bits
for _code, _tname in ((0xC4, "DINT"), (0xC1, "BOOL"), (0xCA, "REAL"), (0xD3, "DWORD")):
    for _dim, _dims in ((0, "[0, 0, 0]"), (1, "[7, 0, 0]"), (2, "[3, 4, 0]"), (3, "[2, 3, 4]")):
        contract(
            id=f"upload.create_tag.{_tname}.{_dim}", func=LD + "._create_tag", call="d._create_tag(name, raw)",
            params={"name": P.str(**NAME), "inst": P.int(0, 2**32 - 1), "swc": P.int(0, 2**32 - 1), "hi": P.int(0, 7)},
            setup=[f"d = {LD}('10.0.0.1')", f"stype = {_code} | ({_dim} << 13) | (hi << 8)",
                   f"raw = {{'tag_name': name, 'instance_id': inst, 'symbol_type': stype, 'symbol_address': 1, 'symbol_object_address': 2, "
                   f"'software_control': swc, 'external_access': 'Read/Write', 'dimensions': {_dims}}}"],
            ensures=["result['tag_name'] == name", "result['instance_id'] == inst", f"result['dim'] == {_dim}",
                     "result['alias'] == ((swc >> 26) & 1 == 0)", "result['tag_type'] == 'atomic'",
                     f"result['data_type'] == {_tname!r} and result['data_type_name'] == {_tname!r}", f"result['dimensions'] == {_dims}",
                     "result['external_access'] == 'Read/Write'",
                     (f"result['type_class'] is pycomm3.cip.data_types.{_tname}" if _dim == 0 else
                      f"result['type_class'].element_type is pycomm3.cip.data_types.{_tname} and result['type_class'].length == "
                      + str(eval("*".join(str(x) for x in eval(_dims)[:_dim]))))],
            props=["C05"])

# ---- fragmented template read: reassembly independent of the fragment sizes
contract(
    id="upload.read_template", func=LD + "._read_template", call="d._read_template(inst, size)",
    params={"inst": P.int(0, 0xFFF), "size": P.int(6, 16000), "head": P.bytes(len=46), "c1": P.bytes(minlen=1, maxlen=500),
            "c2": P.bytes(minlen=1, maxlen=500), "c3": P.bytes(minlen=0, maxlen=500)},
    requires=["spec.encap.le(head, 8, 4) == 0", "len(c1) + len(c2) < size * 4 - 21"],
    setup=[f"d = {LD}('10.0.0.1')", "d._session = 5", "d._target_cid = b'abcd'", "d._target_is_connected = True", "d._connection_opened = True",
           "t = spec.env.Transport([head + spec.logix.sub_reply(0x4c, 6, c1), head + spec.logix.sub_reply(0x4c, 6, c2), head + spec.logix.sub_reply(0x4c, 0, c3)])",
           "d._sock = t", "msg = lambda k: spec.encap.try_parse_frame(t.sent[k])[3][3]",
           "rp = spec.abstract.bytes_of(spec.epath.encode_request_path, b'\\x6c', inst, b'')",
           "offs = [0, len(c1), len(c1) + len(c2)]"],
    ensures=["result == c1 + c2 + c3", "len(t.sent) == 3",
             "all(msg(k) == b'\\x4c' + rp + spec.cip_codec.le_uint(offs[k], 4) + spec.cip_codec.le_uint(size * 4 - 21 - offs[k], 2) for k in range(3))"],
    props=["C05"], max_paths=30000)

# ---- JSON view
contract(
    id="upload.tags_json", func=LD + ".tags_json", call="d.tags_json", setup=DB,
    ensures=["spec.logix.json_typed(result)", "sorted(result) == sorted(tags)", "result['u']['data_type']['internal_tags']['x']['offset'] == 0",
             "'type_class' not in result['u'] and 'type_class' not in result['u']['data_type']"],
    no_entry_check=True, props=["C05"])


# ---- template parsing: member-info table + NUL separated names; symbolic offsets / array lengths / bit numbers,
#      concrete names and type codes (one UDT with a packed BOOL and its hidden host member, one string type)
UDT_SETUP = [
    f"d = {LD}('10.0.0.1')", "d._cache = {'tag_name:id': {}, 'id:struct': {}, 'handle:id': {}, 'id:udt': {}}",
    "info = (spec.logix.template_member_info(0, 0xC4, o1) + spec.logix.template_member_info(0, 0xC2, o2) + "
    "spec.logix.template_member_info(bit, 0xC1, o2) + spec.logix.template_member_info(n, 0xC3, o3))",
    "data = info + b'MyUdt;nABCDEFG\\x00x\\x00ZZZZZZZZZZMyUdt1\\x00flag\\x00arr\\x00'",
    "template = {'object_definition_size': 30, 'structure_size': size, 'member_count': 4, 'structure_handle': 0x1234}"]
contract(
    id="upload.template.udt", func=LD + "._parse_template_data", call="d._parse_template_data(data, template, 0x8123)",
    params={"o1": P.int(0, 2**32 - 1), "o2": P.int(0, 2**32 - 1), "o3": P.int(0, 2**32 - 1), "bit": P.int(0, 7), "n": P.int(1, 65535),
            "size": P.int(1, 2**31)},
    setup=UDT_SETUP,
    ensures=["result['name'] == 'MyUdt'", "result['attributes'] == ['x', 'flag', 'arr']",
             "list(result['internal_tags']) == ['x', 'ZZZZZZZZZZMyUdt1', 'flag', 'arr']",
             "result['internal_tags']['x']['offset'] == o1 and result['internal_tags']['x']['data_type'] == 'DINT' and result['internal_tags']['x']['array'] == 0",
             "result['internal_tags']['flag']['offset'] == o2 and result['internal_tags']['flag']['bit'] == bit and result['internal_tags']['flag']['data_type'] == 'BOOL'",
             "result['internal_tags']['arr']['offset'] == o3 and result['internal_tags']['arr']['array'] == n and result['internal_tags']['arr']['data_type'] == 'INT'",
             "result['internal_tags']['arr']['type_class'].length == n and result['internal_tags']['arr']['type_class'].element_type is pycomm3.cip.data_types.INT",
             "result['template'] is template", "'string' not in result",
             "result['type_class'].size == size and result['type_class'].bits == {'flag': (o2, bit)} and result['type_class'].private == {'ZZZZZZZZZZMyUdt1'}",
             "[m.name for m in result['type_class'].members] == ['x', 'ZZZZZZZZZZMyUdt1', 'arr']"],
    props=["C05"], max_paths=20000)
contract(
    id="upload.template.string", func=LD + "._parse_template_data", call="d._parse_template_data(data, template, 0x8FCE)",
    params={"cap": P.int(1, 65535)},
    setup=[f"d = {LD}('10.0.0.1')", "d._cache = {'tag_name:id': {}, 'id:struct': {}, 'handle:id': {}, 'id:udt': {}}",
           "data = spec.logix.template_member_info(0, 0xC4, 0) + spec.logix.template_member_info(cap, 0xC2, 4) + b'MyString;n\\x00LEN\\x00DATA\\x00'",
           "template = {'object_definition_size': 30, 'structure_size': cap + 4, 'member_count': 2, 'structure_handle': 0x0FCE}"],
    ensures=["result['name'] == 'MyString'", "result['attributes'] == ['LEN', 'DATA']", "result['string'] == cap",
             "result['type_class'].size == cap", "issubclass(result['type_class'], pycomm3.cip.data_types.StringDataType)"],
    props=["C05"], max_paths=20000)

# the predefined-type range (template ids outside 0x100..0xEFF) decides whether a member called Control / CTL is a hidden host
contract(
    id="upload.template.predefined_range", func=LD + "._parse_template_data", call="d._parse_template_data(data, template, stype)",
    params={"stype": P.int(0x8000, 0x8FFF)},
    setup=[f"d = {LD}('10.0.0.1')", "d._cache = {'tag_name:id': {}, 'id:struct': {}, 'handle:id': {}, 'id:udt': {}}",
           "data = spec.logix.template_member_info(0, 0xC4, 0) + spec.logix.template_member_info(0, 0xC4, 4) + b'Axis;n\\x00Control\\x00Speed\\x00'",
           "template = {'object_definition_size': 30, 'structure_size': 8, 'member_count': 2, 'structure_handle': 0x1234}",
           "tid = stype & 0x0FFF"],
    ensures=["('Control' in result['attributes']) == (0x100 <= tid and tid <= 0xEFF)", "'Speed' in result['attributes']",
             "result['name'] == 'Axis'"],
    props=["C05"], max_paths=20000)

# ---- template attributes (Get_Attribute_List on the template object): the four attributes of the reply, cached per instance
CONN5 = [f"d = {LD}('10.0.0.1')", "d._session = 5", "d._target_cid = b'abcd'", "d._target_is_connected = True", "d._connection_opened = True",
         "d._cache = {'tag_name:id': {}, 'id:struct': {}, 'handle:id': {}, 'id:udt': {}}"]
_ATTRS = ("b'\\x04\\x00' + b'\\x04\\x00\\x00\\x00' + spec.cip_codec.le_uint(ods, 4) + b'\\x05\\x00\\x00\\x00' + spec.cip_codec.le_uint(ssize, 4) + "
          "b'\\x02\\x00\\x00\\x00' + spec.cip_codec.le_uint(count, 2) + b'\\x01\\x00\\x00\\x00' + spec.cip_codec.le_uint(handle, 2)")
contract(
    id="upload.structure_makeup", func=LD + "._get_structure_makeup", call="d._get_structure_makeup(inst)",
    bind={"inst": ["0x123", "0", "0xFFFF"], "handle": ["0x1234", "0"]},      # dictionary keys of the cache: concrete
    params={"ods": P.int(0, 2**32 - 1), "ssize": P.int(0, 2**32 - 1), "count": P.int(0, 65535)},
    setup=CONN5 + [f"t = spec.env.Transport([spec.msgrouter.connected_reply(0x03, 0, {_ATTRS})])", "d._sock = t"],
    ensures=["result == {'object_definition_size': ods, 'structure_size': ssize, 'member_count': count, 'structure_handle': handle}",
             "len(t.sent) == 1",
             "spec.msgrouter.try_parse_request(spec.encap.try_parse_frame(t.sent[0])[3][3]) == (0x03, [('logical', 'class_id', 0x6C), "
             "('logical', 'instance_id', inst)], b'\\x04\\x00\\x04\\x00\\x05\\x00\\x02\\x00\\x01\\x00')",
             "d._get_structure_makeup(inst) is result and len(t.sent) == 1",          # cached: asked once per instance
             "d._cache['handle:id'][handle] == inst"],
    props=["C05"], max_paths=20000)
contract(
    id="upload.structure_makeup.refused", func=LD + "._get_structure_makeup", call="d._get_structure_makeup(inst)",
    params={"inst": P.int(0, 0xFFFF), "sts": P.int(1, 255)},
    setup=CONN5 + ["t = spec.env.Transport([spec.msgrouter.connected_reply(0x03, sts, b'')])", "d._sock = t"],
    ensures=["False"], raises_only=["pycomm3.exceptions.ResponseError"], ensures_exc=["inst not in d._cache['id:struct']"], props=["C05"])

# ---- one data type: attributes, template read, parse -- and the cache: a type is fetched once, later uses get the same definition
contract(
    id="upload.get_data_type", func=LD + "._get_data_type", call="d._get_data_type(inst, 0x8123)",
    bind={"inst": ["0x123", "0xEFF"], "handle": ["0x1234"]},
    params={"o1": P.int(0, 2**32 - 1), "o2": P.int(0, 2**32 - 1), "o3": P.int(0, 2**32 - 1), "bit": P.int(0, 7),
            "n": P.int(1, 65535), "ssize": P.int(1, 2**31), "head": P.bytes(len=46)},
    requires=["spec.encap.le(head, 8, 4) == 0"],
    setup=CONN5 + ["ods = 30", "count = 4",
                   "info = (spec.logix.template_member_info(0, 0xC4, o1) + spec.logix.template_member_info(0, 0xC2, o2) + "
                   "spec.logix.template_member_info(bit, 0xC1, o2) + spec.logix.template_member_info(n, 0xC3, o3))",
                   "data = info + b'MyUdt;nABCDEFG\\x00x\\x00ZZZZZZZZZZMyUdt1\\x00flag\\x00arr\\x00'",
                   f"t = spec.env.Transport([spec.msgrouter.connected_reply(0x03, 0, {_ATTRS}), head + spec.logix.sub_reply(0x4c, 0, data)])",
                   "d._sock = t"],
    ensures=["result['name'] == 'MyUdt'", "result['attributes'] == ['x', 'flag', 'arr']",
             "result['template'] == {'object_definition_size': 30, 'structure_size': ssize, 'member_count': 4, 'structure_handle': handle}",
             "result['internal_tags']['arr']['array'] == n and result['internal_tags']['flag']['bit'] == bit",
             "len(t.sent) == 2", "d._data_types['MyUdt'] is result",
             "d._get_data_type(inst, 0x8123) is result and len(t.sent) == 2"],
    props=["C05"], max_paths=20000)

# ---- get_tag_list: controller scope, one program, or everything ('*' = controller tags, then every program found, in order)
_FAKE = ["ctrl = [{'tag_name': 'a', 'k': 1}, {'tag_name': 'b', 'k': 2}]", "p1 = [{'tag_name': 'Program:P1.x', 'k': 3}]",
         "p2 = [{'tag_name': 'Program:P2.x', 'k': 4}, {'tag_name': 'Program:P2.y', 'k': 5}]", "calls = []",
         "def fake(program=None):\n    calls.append(program)\n    if program is None:\n        d._info['programs'] = {'P1': {}, 'P2': {}}\n        return list(ctrl)\n"
         "    return list(p1 if program == 'P1' else p2)"]
for _prog, _expect, _calls in (("None", "ctrl", "[None]"), ("'*'", "ctrl + p1 + p2", "[None, 'P1', 'P2']"), ("'P2'", "p2", "['P2']")):
    for _cache in (True, False):
        contract(
            id=f"upload.get_tag_list.{_prog.strip(chr(39))}.{'cache' if _cache else 'nocache'}", func=LD + ".get_tag_list",
            call=f"d.get_tag_list({_prog}, {_cache})",
            setup=[f"d = {LD}('10.0.0.1')", "d._session = 5", "d._target_cid = b'abcd'", "d._target_is_connected = True", "d._connection_opened = True",
                   "d._tags = {'old': {'tag_name': 'old'}}"] + _FAKE + ["d._get_tag_list = fake"],
            ensures=[f"result == {_expect}", f"calls == {_calls}", "d._cache is None",
                     (f"d._tags == {{t['tag_name']: t for t in {_expect}}}" if _cache else "d._tags == {'old': {'tag_name': 'old'}}")],
            props=["C05"])
# the tag list of one scope = the user-visible part of the symbol instances of that scope
contract(
    id="upload.get_tag_list.scope", func=LD + "._get_tag_list", call="d._get_tag_list(program)",
    bind={"program": ["None", "'Main'"]},
    setup=[f"d = {LD}('10.0.0.1')", "raw = [{'tag_name': 'x'}]", "seen = []",
           "def svc(p=None):\n    seen.append(('svc', p))\n    return raw", "def iso(tags, p=None):\n    seen.append(('iso', tags is raw, p))\n    return ['ok']",
           "d._get_instance_attribute_list_service = svc", "d._isolate_user_tags = iso"],
    ensures=["result == ['ok']", "seen == [('svc', program), ('iso', True, program)]"], props=["C05"])

# the attribute list asked for and the record layout parsed must agree on every firmware revision (external access: from v18 on)
for _major in (17, 18, 19, 32):
    _acc = _major >= 18
    contract(
        id=f"upload.paging.revision.{_major}", func=LD + "._get_instance_attribute_list_service", call="d._get_instance_attribute_list_service(None)",
        params=dict(_entry_params(2), head=P.bytes(len=46)), requires=["spec.encap.le(head, 8, 4) == 0", "inst0 < inst1"],
        setup=[f"d = {LD}('10.0.0.1')", f"d._info = {{'revision': {{'major': {_major}, 'minor': 1}}}}", "d._session = 5", "d._target_cid = b'abcd'",
               "d._target_is_connected = True", "d._connection_opened = True",
               f"t = spec.env.Transport([head + spec.logix.sub_reply(0x55, 0, spec.logix.symbol_entry({_args(0, _acc)}) + spec.logix.symbol_entry({_args(1, _acc)}))])",
               "d._sock = t", "req = lambda k: spec.msgrouter.try_parse_request(spec.encap.try_parse_frame(t.sent[k])[3][3])"],
        ensures=["result == [" + ", ".join(f"spec.logix.symbol_record({_args(i, _acc)})" for i in range(2)) + "]", "len(t.sent) == 1",
                 "req(0)[2] == " + ("b'\\x07\\x00\\x01\\x00\\x02\\x00\\x03\\x00\\x05\\x00\\x06\\x00\\x08\\x00\\x0a\\x00'" if _acc else
                                    "b'\\x06\\x00\\x01\\x00\\x02\\x00\\x03\\x00\\x05\\x00\\x06\\x00\\x08\\x00'")],
        props=["C05"], max_paths=30000)
# program scope, three pages: every request names the program, the symbol class and ONE instance (last instance seen + 1)
_PE = lambda i: f"spec.logix.symbol_entry(inst{i}, 'tag{i}', 0xC4, 0, 0, 1 << 26, [0, 0, 0], 3)"
_PR = lambda i: f"spec.logix.symbol_record(inst{i}, 'tag{i}', 0xC4, 0, 0, 1 << 26, [0, 0, 0], 3)"
contract(
    id="upload.paging.program", func=LD + "._get_instance_attribute_list_service", call="d._get_instance_attribute_list_service(program)",
    bind={"program": ["'Main'", "'Program:Aux1'"]},
    params={"inst0": P.int(0, 2**32 - 1), "inst1": P.int(0, 2**32 - 1), "inst2": P.int(0, 2**32 - 1), "head": P.bytes(len=46)},
    requires=["spec.encap.le(head, 8, 4) == 0", "inst0 < inst1", "inst1 < inst2"],
    setup=[f"d = {LD}('10.0.0.1')", "d._info = {'revision': {'major': 20, 'minor': 1}}", "d._session = 5", "d._target_cid = b'abcd'",
           "d._target_is_connected = True", "d._connection_opened = True",
           "t = spec.env.Transport([" + ", ".join(f"head + spec.logix.sub_reply(0x55, {6 if i < 2 else 0}, {_PE(i)})" for i in range(3)) + "])",
           "d._sock = t", "full = program if program.startswith('Program:') else 'Program:' + program",
           "req = lambda k: spec.msgrouter.try_parse_request(spec.encap.try_parse_frame(t.sent[k])[3][3])"],
    ensures=["result == [" + ", ".join(_PR(i) for i in range(3)) + "]", "len(t.sent) == 3",
             "req(0)[1] == [('symbol', full.encode()), ('logical', 'class_id', 0x6B), ('logical', 'instance_id', 0)]",
             "req(1)[1] == [('symbol', full.encode()), ('logical', 'class_id', 0x6B), ('logical', 'instance_id', inst0 + 1)]",
             "req(2)[1] == [('symbol', full.encode()), ('logical', 'class_id', 0x6B), ('logical', 'instance_id', inst1 + 1)]"],
    props=["C05", "C09"], max_paths=30000)

# a template with an UNNAMED member (empty name between two NULs): it becomes a hidden `__unknown0`, and the members after it keep
# their own records
contract(
    id="upload.template.unnamed_member", func=LD + "._parse_template_data", call="d._parse_template_data(data, template, 0x8123)",
    params={"o1": P.int(0, 2**32 - 1), "o2": P.int(0, 2**32 - 1), "o3": P.int(0, 2**32 - 1)},
    setup=[f"d = {LD}('10.0.0.1')", "d._cache = {'tag_name:id': {}, 'id:struct': {}, 'handle:id': {}, 'id:udt': {}}",
           "data = (spec.logix.template_member_info(0, 0xC4, o1) + spec.logix.template_member_info(0, 0xC2, o2) + "
           "spec.logix.template_member_info(0, 0xC3, o3) + b'Recipe;n\\x00Id\\x00\\x00Qty\\x00')",
           "template = {'object_definition_size': 30, 'structure_size': 12, 'member_count': 3, 'structure_handle': 0x1234}"],
    ensures=["result['name'] == 'Recipe'", "result['attributes'] == ['Id', 'Qty']", "list(result['internal_tags']) == ['Id', '__unknown0', 'Qty']",
             "result['internal_tags']['Id']['offset'] == o1 and result['internal_tags']['Id']['data_type'] == 'DINT'",
             "result['internal_tags']['__unknown0']['offset'] == o2 and result['internal_tags']['__unknown0']['data_type'] == 'SINT'",
             "result['internal_tags']['Qty']['offset'] == o3 and result['internal_tags']['Qty']['data_type'] == 'INT'",
             "result['type_class'].private == {'__unknown0'}"],
    props=["C05"], max_paths=20000)
