"""C04 -- connected requests fit the connection; large data is tiled by fragments.

Sizes are symbolic: connection size (any value 200..8000, covering 500 and 4000), element counts, tag-name lengths
(through the abstracted request path), structure sizes.  The number of requests per call is a small constant per
contract instance (1..3) -- that, and the number of fragments (<= 4), are the bounds of this check."""
from pyvc.api import contract, P

LD = "pycomm3.logix_driver.LogixDriver"
IDENT = dict(minlen=1, maxlen=40, maxcp=127, free_of=".[]{},: /\\", props=("nondigit",))
TYPES = ["SINT", "INT", "DINT", "LINT", "REAL", "DWORD"]

# the request path as callers see it: an opaque byte string with the length bounds the tag_request_path.* contracts prove
contract(
    id="tag_request_path.callsite", func="pycomm3.packets.util.tag_request_path",
    call="pycomm3.packets.util.tag_request_path(tag, tag_info, use_instance_ids)",
    params={"tag": P.str(**IDENT), "tag_info": P.const("{'instance_id': 5}"), "use_instance_ids": P.bool()},
    ref="spec.epath.tag_path_or_raise(pycomm3.packets.util.tag_request_path, tag, tag_info, use_instance_ids)",
    callsite_ensures=["len(result) >= 5", "len(result) <= 2 * len(tag) + 8", "len(result) % 2 == 1"],
    assumed=True, callsite=True, props=["C04", "C01", "C02", "C03"],
    note="content abstracted (proved in C09 by the tag_request_path.* contracts); 'a malformed index raises' is checked by the "
         "bounded enumeration tag_request_path.malformed, not proved")


def _malformed(tier):
    for t in ("a[", "a[]", "a[x]", "a[1", "a[1,]", "a[,1]", "a[1][2]", "a[-1]", "a[1.5]", "a[4294967296]", "a[99999999999]", "a.b[y]",
              "a[1].b[", "a[ 1]", "a[1 ]", "a[0x10]", "a[1,2,x]", "Program:P.a[z]", "a[[1]]", "a[1]]"):
        yield {"tag": t}


contract(
    id="tag_request_path.malformed", func="pycomm3.packets.util.tag_request_path",
    call="spec.epath.raises_something(lambda: pycomm3.packets.util.tag_request_path(tag, {'instance_id': 5}, False)) or spec.epath.wellformed_tag(tag)",
    ref="True", params={"tag": P.str()}, enum=_malformed, callsite=False, props=["C03", "C04"],
    bounded="the string surgery of _find_tag_index on arbitrary malformed text is outside the constructed-term strings the engine handles")


def _tag_info(kind):
    if kind == "struct":
        return ("{'tag_type': 'struct', 'data_type': {'name': 'UDT', 'template': {'structure_size': ssize, 'structure_handle': 77}}, "
                "'data_type_name': 'UDT', 'instance_id': iid, 'type_class': None}")
    return f"{{'tag_type': 'atomic', 'data_type': '{kind}', 'data_type_name': '{kind}', 'instance_id': iid, 'type_class': None}}"


DRV = [f"d = {LD}('10.0.0.1')", "d._cfg['connection_size'] = conn"]
BASE = {"conn": P.int(200, 8000), "iid": P.int(0, 65535), "ssize": P.int(1, 70000), "use_ids": P.bool()}

for _kind in TYPES + ["struct"]:
    contract(
        id=f"sizes.read.single.{_kind}", func=LD + "._read_build_single_request", call="d._read_build_single_request(pt)",
        params=dict(BASE, name=P.str(**IDENT), elements=P.int(1, 65535)),
        setup=DRV + ["d._cfg['use_instance_ids'] = use_ids",
                     f"pt = {{'plc_tag': name, 'elements': elements, 'tag_info': {_tag_info(_kind)}, 'request_id': 0}}"],
        ensures=["spec.logix_sizes.reads_fit([result], conn)", "result.request_id == 0", "result.elements == elements"],
        props=["C04", "C01"])

import itertools as _it
for _n in (2, 3):
    for _kinds in ([("DINT",) * _n, ("SINT", "struct", "LINT")[:_n], ("struct",) * _n]):
        _pts = ", ".join(f"{i}: {{'plc_tag': names[{i}], 'elements': elements[{i}], 'tag_info': {_tag_info(_kinds[i])}, 'request_id': {i}}}"
                         for i in range(_n))
        contract(
            id=f"sizes.read.multi.{_n}.{'_'.join(_kinds)}", func=LD + "._read_build_multi_requests",
            call="d._read_build_multi_requests(pts)",
            params=dict(BASE, names=P.tuple(*[P.str(**IDENT) for _ in range(_n)]), elements=P.tuple(*[P.int(1, 65535) for _ in range(_n)])),
            setup=DRV + ["d._cfg['use_instance_ids'] = use_ids", f"pts = {{{_pts}}}"],
            ensures=["spec.logix_sizes.reads_fit(result, conn)", f"sorted(spec.logix_sizes.request_ids(result)) == list(range({_n}))"],
            props=["C04", "C03", "C01"], max_paths=20000)

# writes (value given as bytes, so encode_value passes it through)
for _kind in ("DINT", "struct"):
    contract(
        id=f"sizes.write.single.{_kind}", func=LD + "._write_build_single_request", call="d._write_build_single_request(pt)",
        params=dict(BASE, name=P.str(**IDENT), elements=P.int(1, 65535), value=P.bytes(maxlen=70000)),
        setup=DRV + ["d._cfg['use_instance_ids'] = use_ids",
                     f"pt = {{'plc_tag': name, 'elements': elements, 'tag_info': {_tag_info(_kind)}, 'request_id': 0, 'value': value, "
                     "'bool_elements': None}"],
        ensures=["spec.logix_sizes.writes_fit([result], conn)", "result.request_id == 0", "result.value == value"],
        props=["C04", "C02"])
for _n in (2, 3):
    _pts = ", ".join(f"{i}: {{'plc_tag': names[{i}], 'elements': 1, 'tag_info': {_tag_info('DINT')}, 'request_id': {i}, "
                     f"'value': values[{i}], 'bool_elements': None}}" for i in range(_n))
    contract(
        id=f"sizes.write.multi.{_n}", func=LD + "._write_build_multi_requests", call="d._write_build_multi_requests(pts)",
        params=dict(BASE, names=P.tuple(*[P.str(**IDENT) for _ in range(_n)]), values=P.tuple(*[P.bytes(maxlen=70000) for _ in range(_n)])),
        setup=DRV + ["d._cfg['use_instance_ids'] = use_ids", f"pts = {{{_pts}}}"],
        ensures=["spec.logix_sizes.writes_fit(result, conn)", f"sorted(spec.logix_sizes.request_ids(result)) == list(range({_n}))"],
        props=["C04", "C03", "C02"], max_paths=20000)

# ---- fragmented transfers
SC = {"session": P.int(1, 0xFFFFFFFF), "cid": P.bytes(len=4)}
CONN = DRV + ["d._session = session", "d._target_cid = cid", "d._target_is_connected = True", "d._connection_opened = True",
              "d._cfg['use_instance_ids'] = use_ids"]
ITEM = "spec.encap.try_parse_frame(f)[3]"
contract(
    id="sizes.write.fragmented", func=LD + "._send_write_fragmented", call="d.send(req)",
    params=dict(BASE, **SC, name=P.str(**IDENT), elements=P.int(1, 65535), value=P.bytes(minlen=1, maxlen=40000)),
    requires=["len(value) <= 4 * (conn - 99)"],
    setup=CONN + [f"req = pycomm3.packets.WriteTagFragmentedRequestPacket(5, name, elements, {_tag_info('DINT')}, 0, use_ids, 0, value)",
                  "req.build_message()",
                  "t = spec.env.Transport([spec.msgrouter.connected_reply(0x53, 0, b'') for _ in range(6)])", "d._sock = t",
                  "frags = lambda: [spec.logix.split_write_fragment(spec.encap.try_parse_frame(f)[3][3], len(req.request_path), 2) for f in t.sent]"],
    ensures=["bool(result)", "len(t.sent) >= 1", "len(t.sent) <= 4",
             "spec.logix.write_fragments_tile(frags(), value, req.request_path, b'\\xc4\\x00', elements)",
             "all(2 + len(spec.encap.try_parse_frame(f)[3][3]) <= conn for f in t.sent)",
             "all(spec.encap.try_parse_frame(f)[3][1] == cid for f in t.sent)"],
    props=["C04", "C02"], max_paths=20000,
    note="number of fragments bounded by 4 (requires len(value) <= 4 * (conn - 99)); all sizes within that bound")

for _nfrag, _first_min, _sfx, _tier in ((1, 0, "", "quick"), (2, 0, "", "quick"), (3, 1, "", "quick"), (3, 0, ".empty_first", "thorough")):
    _chunks = [f"c{i}" for i in range(_nfrag)]
    _replies = ", ".join(f"spec.logix.read_fragment_reply(head, {6 if i < _nfrag - 1 else 0}, b'\\xc4\\x00', c{i})" for i in range(_nfrag))
    contract(
        id=f"sizes.read.fragmented.{_nfrag}{_sfx}", func=LD + "._send_read_fragmented", call="d.send(req)", tier=_tier,
        params=dict(BASE, **SC, name=P.str(**IDENT), elements=P.int(1, 65535), head=P.bytes(len=46),
                    **{c: P.bytes(minlen=(_first_min if c == "c0" else 0), maxlen=4000) for c in _chunks}),      # a fragment may carry no data at all
        requires=["spec.encap.le(head, 8, 4) == 0"],
        setup=CONN + [f"tag_info = {_tag_info('DINT')}", "tag_info['type_class'] = type(pycomm3.cip.data_types.n_bytes(-1))",
                      "req = pycomm3.packets.ReadTagFragmentedRequestPacket(5, name, elements, tag_info, 0, use_ids, 0)",
                      f"t = spec.env.Transport([{_replies}])", "d._sock = t",
                      "reqs = lambda: [spec.logix.split_read_fragment(spec.encap.try_parse_frame(f)[3][3], "
                      "len(spec.encap.try_parse_frame(f)[3][3]) - 7) for f in t.sent]"],
        ensures=[f"len(t.sent) == {_nfrag}",
                 "all(r['service'] == 0x52 and r['elements'] == elements and r['rest'] == b'' for r in reqs())",
                 "[r['offset'] for r in reqs()] == [" + ", ".join("+".join(f"len(c{j})" for j in range(i)) or "0" for i in range(_nfrag)) + "]",
                 "result.value_bytes == " + " + ".join(_chunks), "bool(result) or len(" + " + ".join(_chunks) + ") == 0",
                 "all(r['path'] == reqs()[0]['path'] for r in reqs())",
                 # every fragment request is a packet of its own: consecutive sequence counts differ (the follow-ups are successive draws)
                 "all(spec.encap.try_parse_frame(t.sent[k])[3][2] != spec.encap.try_parse_frame(t.sent[k + 1])[3][2] for k in range(len(t.sent) - 1))",
                 "all(spec.encap.try_parse_frame(t.sent[k + 1])[3][2] == spec.seq.successor(spec.encap.try_parse_frame(t.sent[k])[3][2], 1, 65535) "
                 "for k in range(1, len(t.sent) - 1))"],
        props=["C04", "C01", "C13", "C17"], max_paths=20000)

# ---- the size asked for at Forward Open
for _ext, _size in (("True", 4000), ("False", 500)):
    contract(
        id=f"sizes.forward_open.{'large' if _ext == 'True' else 'standard'}", func="pycomm3.cip_driver.CIPDriver._forward_open",
        call="d._forward_open()", params=dict(SC, payload=P.bytes(minlen=4, maxlen=30)),
        setup=[f"d = {LD}('10.0.0.1/2')", "d._session = session", "d._connection_opened = True", f"d._cfg['extended forward open'] = {_ext}",
               f"d._cfg['connection_size'] = {_size}",
               f"t = spec.env.Transport([spec.msgrouter.unconnected_reply({'0x5b' if _ext == 'True' else '0x54'}, 0, payload)])", "d._sock = t",
               "msg = lambda: spec.encap.try_parse_frame(t.sent[0])[3][1]"],
        ensures=["result == True", "d._target_cid == payload[:4]", "d._target_is_connected",
                 f"msg()[0] == {'0x5b' if _ext == 'True' else '0x54'}",
                 # after service + path(02 20 06 24 01): 2 + 4 + 4 + 2 + 2 + 4 + 1 + 3 + 4 = 26 bytes, then O->T network parameters
                 (f"spec.logix.le(msg(), 6 + 26, 4) == ({_size} | (0x4200 << 16)) and spec.logix.le(msg(), 6 + 26 + 8, 4) == ({_size} | (0x4200 << 16))"
                  if _ext == "True" else
                  f"spec.logix.le(msg(), 6 + 26, 2) == ({_size} | 0x4200) and spec.logix.le(msg(), 6 + 26 + 6, 2) == ({_size} | 0x4200)")],
        props=["C04", "C10"])

# a fragment that carries status 6 but is not a valid reply (encapsulation error) must not be spliced into a successful value
contract(
    id="sizes.read.fragmented.bad_middle", func=LD + "._send_read_fragmented", call="d.send(req)",
    params=dict(BASE, **SC, name=P.str(**IDENT), elements=P.int(1, 65535), head=P.bytes(len=46), bad=P.bytes(len=46),
                c0=P.bytes(minlen=1, maxlen=400), c1=P.bytes(minlen=1, maxlen=400)),
    requires=["spec.encap.le(head, 8, 4) == 0", "spec.encap.le(bad, 8, 4) != 0"],
    setup=CONN + [f"tag_info = {_tag_info('DINT')}", "tag_info['type_class'] = type(pycomm3.cip.data_types.n_bytes(-1))",
                  "req = pycomm3.packets.ReadTagFragmentedRequestPacket(5, name, elements, tag_info, 0, use_ids, 0)",
                  "t = spec.env.Transport([spec.logix.read_fragment_reply(bad, 6, b'\\xc4\\x00', c0), "
                  "spec.logix.read_fragment_reply(head, 0, b'\\xc4\\x00', c1)])", "d._sock = t"],
    ensures=["not bool(result)", "isinstance(result.error, str) and len(result.error) > 0"],
    props=["C04", "C01", "C13"], max_paths=20000)

# a final fragment whose reply ends right after the status words (or inside the type field): no exception out of the read, and
# nothing that is not there is reported as a value
contract(
    id="sizes.read.fragmented.truncated_last", func=LD + "._send_read_fragmented", call="d.send(req)",
    bind={"tail": ["b''", "b'\\xc4'", "b'\\xc4\\x00'"], "first_ok": ["True", "False"]},
    params=dict(BASE, **SC, name=P.str(**IDENT), elements=P.int(1, 65535), head=P.bytes(len=46), c0=P.bytes(minlen=1, maxlen=400)),
    requires=["spec.encap.le(head, 8, 4) == 0"],
    setup=CONN + [f"tag_info = {_tag_info('DINT')}", "tag_info['type_class'] = type(pycomm3.cip.data_types.n_bytes(-1))",
                  "req = pycomm3.packets.ReadTagFragmentedRequestPacket(5, name, elements, tag_info, 0, use_ids, 0)",
                  "last = head + bytes([0xD2, 0, 0, 0]) + tail",
                  "t = spec.env.Transport(([spec.logix.read_fragment_reply(head, 6, b'\\xc4\\x00', c0)] if first_ok else []) + [last])", "d._sock = t"],
    ensures=["(not bool(result)) or result.value_bytes == (c0 if first_ok else b'')"],
    raises_only=["pycomm3.exceptions.PycommError"], ensures_exc=["False"],
    props=["C13", "C01", "C03"], max_paths=20000)
